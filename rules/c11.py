"""C11 - a workbook file loads into a model with the same cells and formulas (structural part)."""
import ast

from xlsa import Unmodelled, AnchorMissing
from xlsa.load import walk_local, names_in, dotted
from xlsa.consteval import Ref
from xlsa.guards import Interp, Rec, PyModel, Opaque
from xlsa import flow
from .common import func_params, value_returns, last_return

PROPERTY = 'C11'
EXPLANATION = (
    'Decided from source: (C11.1) Reader.read_cells, partially evaluated on an abstract workbook with an ignored and a kept '
    'sheet, puts no key of the ignored sheet and every cell of the kept sheet into the maps it returns; (C11.2) the ignore_sheets parameter reaches the filter of read_defined_names and '
    'both readers receive the caller\'s ignore list; (C11.3) what a formula cell stores: address = sheet!coordinate, '
    'formula text -> XLFormula with the cell\'s sheet, cached value (cvalue) -> XLCell.value, otherwise value -> XLCell.value '
    'and no formula, both maps receive the formula; the openpyxl patch captures the cached value next to the formula; '
    '(C11.4) the target text of a defined name is normalised like cell keys ($ removed and sheet name unquoted) before it is '
    'looked up; (C11.5) parse_archive runs the build steps in dependency order; (C11.6) the address resolvers used for range '
    'targets of defined names unquote the sheet name.'
    ' (C11.4) is decided by interpreting build_defined_names on an abstract compiler: names for a constant cell, formula cells with and without cached value, cells holding 0 and "", a range are bound to the very objects of the model, names of missing cells are skipped; (C11.3) also: the same formula text on two sheets gives two formulas bound to their own sheets.'
    ' (C11.7) the reference workbook loaded through Reader / parse_archive from a modelled openpyxl workbook with cached results: get_cell_value returns the cached results before evaluation, evaluation reproduces them in both orders.'
    " (C11.2) workbooks loaded with ignore lists end to end; two loads in one process; (C11.7) also formulas stored with layout, sheet titles with runs of blanks, names scoped to one sheet; (C11.8) the replacement openpyxl reader hands its parser every parameter openpyxl's own reader (read from the installed source) hands over.")
NOT_DECIDED = ('the SpreadsheetML storage forms, shared-formula expansion and the patched worksheet reader (openpyxl '
               'behaviour), equality of values')
TRUSTED = ['the installed openpyxl source (worksheet/_reader.py) as the reference of what WorksheetReader hands to WorkSheetParser', "openpyxl's sheet_state, worksheets, per-sheet defined_names, epoch attributes", 'openpyxl cell attributes (.coordinate, .data_type, .value) and defined_names mapping', 'workbook scenarios: pandas storage of range arrays as row-major rows, numpy on Python numbers (IEEE results, 64-bit integer wrap), dateutil.parser.parse rejecting texts that are no dates, openpyxl address arithmetic, inspect.signature built from the FunctionDef']


class _Book(PyModel):
    def __init__(self, sheets, names):
        self.sheetnames = list(sheets)
        self._sheets = sheets
        self.defined_names = names
        self.worksheets = list(sheets.values())

    def __getitem__(self, name):
        return self._sheets[name]


class _Sheet(PyModel):
    def __init__(self, cells):
        self._cells = cells
        self.defined_names = {}


def _ocell(coord, dtype, value, cvalue=None):
    return Rec(coordinate=coord, data_type=dtype, value=value, cvalue=cvalue)


def _reader_models():
    return {'pkg:utils:resolve_sheet': lambda t: t.strip().strip("'")}


def _isinst(ctx):
    def isinst(val, refs):
        refs = refs if isinstance(refs, tuple) else (refs,)
        if any(r == 'builtin:str' for r in refs) and isinstance(val, str):
            return True
        cls = val.f.get('cls') if isinstance(val, Rec) else getattr(val, 'cls', None)
        return bool(cls) and isinstance(cls, str) and any(r and ctx.res.is_subclass(cls, r) for r in refs)
    return isinst


def _read_cells(ctx, ignore):
    rm = ctx.mod('reader')
    rc = rm.func('Reader.read_cells')
    p = func_params(rc)
    book = _Book({
        'S1': _Sheet({(1, 1): _ocell('A1', 'n', 5), (1, 2): _ocell('B1', 'f', '=A1*2', 10), (2, 1): _ocell('A2', 's', 'txt')}),
        'Ign': _Sheet({(1, 1): _ocell('A1', 'n', 1), (1, 2): _ocell('B1', 'f', '=A1+1', 2)}),
        'My Sheet': _Sheet({(1, 1): _ocell('A1', 'b', True), (1, 2): _ocell('B1', 'f', '=A1*2', 4)}),
    }, {})
    env = {p[0]: Rec(cls='pkg:reader:Reader', book=book), p[1]: list(ignore)}
    if len(p) > 2:
        env[p[2]] = False
    it = Interp(ctx.a, rm, env, isinstance_fn=_isinst(ctx), inline_pkg=True, scope_fn=rc, self_class='pkg:reader:Reader',
                call_models=_reader_models())
    return rc, it.run(rc.body)


def rule_1(ctx):
    for ignore, want in ((['Ign'], {'S1!A1', 'S1!B1', 'S1!A2', 'My Sheet!A1', 'My Sheet!B1'}), ([], {'S1!A1', 'S1!B1', 'S1!A2', 'Ign!A1', 'Ign!B1', 'My Sheet!A1', 'My Sheet!B1'}),
                         (['Ign', 'My Sheet'], {'S1!A1', 'S1!B1', 'S1!A2'}), (['S1', 'Ign', 'My Sheet'], set())):
        try:
            rc, out = _read_cells(ctx, ignore)
        except Unmodelled as exc:
            raise Unmodelled(f'read_cells: {exc}')
        if out.end != 'return' or not isinstance(out.value, (list, tuple)) or len(out.value) != 3:
            raise Unmodelled(f'read_cells ends in {out.end} {out.value!r}')
        cells, formulae = out.value[0], out.value[1]
        got = set(cells) if isinstance(cells, dict) else cells
        ctx.expect(got == want, rc, f'cells loaded when {ignore} is ignored',
                   f'loading with ignore_sheets={ignore} yields the cells {sorted(got) if isinstance(got, set) else got}, expected {sorted(want)}: '
                   'ignored sheets contribute no cells, every other stored cell is loaded under Sheet!Coordinate')
        fwant = {k for k in want if k.endswith('!B1')}
        fgot = set(formulae) if isinstance(formulae, dict) else formulae
        ctx.expect(fgot == fwant, rc, f'formulae loaded when {ignore} is ignored',
                   f'the formulae map holds {sorted(fgot) if isinstance(fgot, set) else fgot}, expected {sorted(fwant)}')
    ctx.floor(8, 'ignore subsets x maps')


def _read_names(ctx, ignore):
    rm = ctx.mod('reader')
    rd = rm.func('Reader.read_defined_names')
    p = func_params(rd)
    names = {
        'a': Rec(name='a', value='Data!$A$1', hidden=None),
        'b': Rec(name='b', value='Ignored!$A$1:$B$2', hidden=None),
        'c': Rec(name='c', value="'My Sheet'!$C$1", hidden=None),
        'd': Rec(name='d', value='#REF!', hidden=None),
        'e': Rec(name='e', value='Data!$E$1', hidden=True),
    }
    env = {p[0]: Rec(cls='pkg:reader:Reader', book=_Book({}, names)), p[1]: list(ignore)}
    if len(p) > 2:
        env[p[2]] = False
    it = Interp(ctx.a, rm, env, isinstance_fn=_isinst(ctx), inline_pkg=True, scope_fn=rd, self_class='pkg:reader:Reader',
                call_models=_reader_models())
    return rd, it.run(rd.body)


def rule_2(ctx):
    for ignore, want in (([], {'a', 'b', 'c'}), (['Ignored'], {'a', 'c'}), (['Ignored', 'My Sheet'], {'a'}), (['Data'], {'b', 'c'})):
        try:
            rd, out = _read_names(ctx, ignore)
        except Unmodelled as exc:
            raise Unmodelled(f'read_defined_names: {exc}')
        got = set(out.value) if out.end == 'return' and isinstance(out.value, dict) else f'<{out.end} {out.value!r}>'
        ctx.expect(got == want, rd, f'defined names read when {ignore} is ignored',
                   f'with ignore_sheets={ignore} the defined names read are {sorted(got) if isinstance(got, set) else got}, expected {sorted(want)}: '
                   'names bound to ignored sheets (quoted or not), broken (#REF!) and hidden names are dropped - otherwise loading raises KeyError '
                   'for a range on a sheet whose cells were not loaded')
        if isinstance(out.value, dict) and 'a' in out.value:
            ctx.expect(out.value['a'] == 'Data!$A$1', rd, f'name -> target text when {ignore} is ignored', 'the target text of a defined name is altered')
    ctx.note('ignore_hidden is accepted but unused by both readers: outside the statement (allow-listed)')
    # end to end: a workbook loaded with an ignore list holds no cell, range or name of the ignored sheets and evaluates the rest
    from . import workbook as W
    from . import scenarios as S
    anchor = ctx.mod('model').func('ModelCompiler.read_and_parse_archive')
    sheets = {'Data': {'A1': 2, 'A2': 3, 'B1': '=SUM(A1:A2)', 'B2': '=keep*2'}, 'Ignored': {'A1': 5, 'B1': '=SUM(A1:A2)+drop'},
              'My Sheet': {'C1': 7, 'C2': '=C1+Data!A1', 'C3': '=SUM(C1:C2)'}}
    names = {'keep': 'Data!$A$2', 'drop': 'Ignored!$A$1', 'dropr': 'Ignored!$A$1:$A$2', 'mine': "'My Sheet'!$C$1", 'miner': "'My Sheet'!$C$1:$C$2"}
    for ignore, gone, want in ((['Ignored'], ('Ignored!',), {'Data!B1': 5, 'Data!B2': 6, 'My Sheet!C2': 9, 'My Sheet!C3': 16, 'keep': 3, 'mine': 7}),
                               (['Ignored', 'My Sheet'], ('Ignored!', 'My Sheet!'), {'Data!B1': 5, 'Data!B2': 6, 'keep': 3}),
                               ([], (), {'Data!B1': 5, 'Ignored!B1': 10, 'My Sheet!C3': 16, 'drop': 5, 'mine': 7})):
        wb = W.Workbook(ctx, sheets=sheets, names=names, ignore_sheets=ignore)
        for field in ('cells', 'formulae', 'ranges'):
            held = wb.model.f.get(field)
            bad = sorted(k for k in held if k.startswith(gone)) if isinstance(held, dict) and gone else []
            ctx.expect(isinstance(held, dict) and not bad, anchor, f'model.{field} when {ignore} is ignored',
                       f'loaded with ignore_sheets={ignore} the model holds {bad[:4]} in {field}: ignored sheets contribute nothing')
        held = wb.model.f.get('defined_names')
        expect_names = {k for k, v in names.items() if not any(v.replace("'", '').startswith(g) for g in gone)}
        ctx.expect(isinstance(held, dict) and set(held) == expect_names, anchor, f'defined names of the model when {ignore} is ignored',
                   f'loaded with ignore_sheets={ignore} the model binds the names {sorted(held) if isinstance(held, dict) else held!r}, expected {sorted(expect_names)}')
        for addr, w in want.items():
            got = wb.value(addr)
            ctx.expect(S.same(got, w), anchor, f'{addr} when {ignore} is ignored', f'loaded with ignore_sheets={ignore}, {addr} evaluates to {got!r}, expected {w!r}')
    S.check_loads_are_independent(ctx, anchor, 'two loads in one process')
    ctx.floor(50, 'ignore list: names read, models loaded')


def rule_3(ctx):
    try:
        rc, out = _read_cells(ctx, ['Ign'])
    except Unmodelled as exc:
        raise Unmodelled(f'read_cells: {exc}')
    if out.end != 'return' or len(out.value) != 3:
        raise Unmodelled(f'read_cells ends in {out.end} {out.value!r}')
    cells, formulae, ranges = out.value

    def field(rec, name, pos):
        if not isinstance(rec, Rec):
            return f'<{rec!r}>'
        if name in rec.f and name not in ('args', 'kwargs', 'cls'):
            return rec.f[name]
        if name in rec.f.get('kwargs', {}):
            return rec.f['kwargs'][name]
        a = rec.f.get('args', ())
        return a[pos] if len(a) > pos else None
    b1, a1, a2 = cells.get('S1!B1'), cells.get('S1!A1'), cells.get('S1!A2')
    ctx.expect(isinstance(b1, Rec) and b1.f.get('cls') == 'pkg:xltypes:XLCell' and field(b1, 'address', 0) == 'S1!B1', rc,
               'cell address = sheet!coordinate', 'a loaded cell is not an XLCell addressed "<sheet name>!<coordinate>"')
    ctx.expect(field(b1, 'value', 1) == 10, rc, 'formula cell value = cached result',
               f'a formula cell stores {field(b1, "value", 1)!r} as its value, expected the cached result 10')
    fo = field(b1, 'formula', 2)
    ok = isinstance(fo, Rec) and fo.f.get('cls') == 'pkg:xltypes:XLFormula' and field(fo, 'formula', 0) == '=A1*2' and field(fo, 'sheet_name', 1) == 'S1'
    ctx.expect(ok, rc, 'formula cell formula = XLFormula(text, sheet)',
               'the formula object of a formula cell is not built from its formula text and the sheet of the cell')
    ctx.expect(formulae.get('S1!B1') is fo, rc, 'formulae map receives the formula under the cell address',
               'formulae[addr] is not the formula object stored in the cell')
    # the same formula text on another sheet: a formula object of its own, bound to ITS sheet
    m1 = cells.get('My Sheet!B1')
    fo2 = field(m1, 'formula', 2) if isinstance(m1, Rec) else None
    ok = isinstance(fo2, Rec) and fo2 is not fo and field(fo2, 'formula', 0) == '=A1*2' and field(fo2, 'sheet_name', 1) == 'My Sheet'
    ctx.expect(ok, rc, 'the same formula text on two sheets gives two formulas, each bound to its own sheet',
               f'the cell My Sheet!B1 (formula =A1*2, the text S1!B1 also has) gets the formula object '
               f'{"of S1!B1" if fo2 is fo else repr(fo2)[:120]}: its unqualified references/ranges belong to the other sheet '
               '(=SUM(A1:B3) repeated on every sheet evaluates to 0 from the second sheet on)')
    if isinstance(fo2, Rec) and 'terms' in fo2.f:
        ctx.expect(fo2.f['terms'] == ['My Sheet!A1'], rc, 'terms of a formula are qualified with the sheet of its own cell',
                   f'the formula of My Sheet!B1 has the terms {fo2.f["terms"]!r}, expected ["My Sheet!A1"]')
    ctx.expect(field(a1, 'value', 1) == 5 and field(a1, 'formula', 2) is None and field(a2, 'value', 1) == 'txt', rc,
               'constant cell: value, no formula', 'a constant cell does not store its value with no formula')
    ctx.expect(isinstance(ranges, dict), rc, 'read_cells returns [cells, formulae, ranges]', 'read_cells returns its maps in another order')
    # patch: cached value captured
    pm = ctx.mod('patch')
    pc = pm.func('WorkSheetParser.parse_cell')
    stores = [a for a in walk_local(pc) if isinstance(a, ast.Assign) and isinstance(a.targets[0], ast.Subscript)]
    cv = [a for a in stores if _const(ctx, pm, a.targets[0].slice) == 'cvalue']
    ctx.expect(bool(cv), pc, 'patched parser records cvalue', 'the patched cell parser no longer records the cached value')
    for a in cv:
        conds = [c for c in flow.path_conditions(a, check_kills=False) if c.kind in ('if', 'guard', 'while')]

        def conjuncts(t):
            if isinstance(t, ast.BoolOp) and isinstance(t.op, ast.And):
                out_ = []
                for v in t.values:
                    out_ += conjuncts(v)
                return out_
            return [t]

        def is_f_test(t):
            if not (isinstance(t, ast.Compare) and len(t.ops) == 1 and isinstance(t.ops[0], ast.Eq)):
                return False
            a_, b_ = t.left, t.comparators[0]
            return any('data_type' in ast.unparse(x) and _const(ctx, pm, y) == 'f' for x, y in ((a_, b_), (b_, a_)))
        only_f = all(c.polarity and all(is_f_test(x) for x in conjuncts(c.test)) for c in conds)
        ctx.expect(only_f and len(conds) <= 1, a, "cell['cvalue'] is set for every formula cell",
                   f"cell['cvalue'] is only set under `{' and '.join(ast.unparse(c.test)[:40] for c in conds)}` while bind_cells reads it "
                   "for every formula cell: a formula stored without a cached value (<c><f>..</f></c>) raises KeyError on load")
    bc = pm.func('WorksheetReader.bind_cells')
    reads = [a for a in walk_local(bc) if isinstance(a, ast.Assign) and isinstance(a.value, ast.Subscript)
             and _const(ctx, pm, a.value.slice) == 'cvalue']
    ok = any(isinstance(a.targets[0], ast.Attribute) and a.targets[0].attr == 'cvalue' for a in reads)
    ctx.expect(ok, bc, 'bound cell carries cvalue', 'bind_cells does not copy the cached value onto the cell')
    rd = ctx.mod('reader').func('Reader.read')
    ok = any(isinstance(w, ast.With) and any('openpyxl_WorksheetReader_patch' in ast.unparse(i.context_expr) for i in w.items)
             and any('load_workbook' in ast.unparse(s_) for s_ in w.body) for w in walk_local(rd))
    ctx.expect(ok, rd, 'workbook loaded under the cached-value patch', 'load_workbook is not called inside the WorksheetReader patch')
    ctx.floor(10, 'formula/constant cell dataflow')


def _const(ctx, m, node):
    try:
        return ctx.fold(node, m)
    except Exception:
        return None


def rule_4(ctx):
    """ModelCompiler.build_defined_names interpreted on an abstract compiler: which names end up bound, and to what."""
    mm = ctx.mod('model')
    bd = mm.func('ModelCompiler.build_defined_names')

    def cell(addr, value=None, formula=None):
        return Rec(cls='pkg:xltypes:XLCell', address=addr, value=value, formula=formula, defined_names=[], need_update=False)

    def formula(text, sheet):
        return Rec(cls='pkg:xltypes:XLFormula', formula=text, sheet_name=sheet, evaluate=True, terms=[], ast=None)
    f_b1, f_c1 = formula('=A1*2', 'Sheet1'), formula('=A1*3', 'Sheet1')
    cells = {'Sheet1!A1': cell('Sheet1!A1', 5), 'Sheet1!A2': cell('Sheet1!A2', 6), 'Sheet1!B1': cell('Sheet1!B1', None, f_b1),
             'Sheet1!C1': cell('Sheet1!C1', 15, f_c1), 'My Sheet!A1': cell('My Sheet!A1', 1), 'Sheet1!D1': cell('Sheet1!D1', 0),
             'Sheet1!E1': cell('Sheet1!E1', '')}
    model = Rec(cls='pkg:model:Model', cells=cells, defined_names={}, ranges={}, formulae={'Sheet1!B1': f_b1, 'Sheet1!C1': f_c1})
    names = {'Base': 'Sheet1!$A$1', 'Twice': 'Sheet1!$B$1', 'Cached': 'Sheet1!$C$1', 'Gone': 'Sheet1!$Z$9', 'Rng': 'Sheet1!$A$1:$A$2',
             'Quoted': "'My Sheet'!$A$1", 'Zero': 'Sheet1!$D$1', 'Empty': 'Sheet1!$E$1'}
    compiler = Rec(cls='pkg:model:ModelCompiler', model=model, defined_names=dict(names))
    it = Interp(ctx.a, mm, {func_params(bd)[0]: compiler}, isinstance_fn=_isinst(ctx), inline_pkg=True, scope_fn=bd, self_class='pkg:model:ModelCompiler',
                call_models=_reader_models())
    out = it.run(bd.body)
    if out.end == 'raise':
        ctx.bad(bd, 'build_defined_names completes on the witness workbook', f'build_defined_names raises {out.value!r} on a workbook with names '
                'for a constant cell, a formula cell with and without cached value, an empty cell, a range and a quoted sheet')
        return
    got = model.f['defined_names']
    for name, addr, why in (('Base', 'Sheet1!A1', 'a constant cell'), ('Cached', 'Sheet1!C1', 'a formula cell with a cached value'),
                            ('Twice', 'Sheet1!B1', 'a formula cell stored without a cached value'),
                            ('Zero', 'Sheet1!D1', 'a cell holding 0'), ('Empty', 'Sheet1!E1', 'a cell holding the empty text')):
        ctx.expect(got.get(name) is cells[addr], bd, f'a name for {why} is bound to the cell object of the cells map',
                   f'the defined name {name} -> {names[name]} ({why}) is bound to {got.get(name)!r}: every name whose target cell exists must '
                   'be bound to that very cell (whatever the cell currently holds), otherwise formulas and evaluate(name) read a blank')
    ctx.expect('Gone' not in got, bd, 'a name for a cell that is not stored is skipped', 'a defined name pointing at a missing cell is bound')
    rng = got.get('Rng')
    ctx.expect(isinstance(rng, Rec) and rng.f.get('cls') == 'pkg:xltypes:XLRange' and model.f['ranges'].get('Sheet1!A1:A2') is rng, bd,
               'a range name is bound to an XLRange registered under its $-free address',
               f'the range name Rng -> Sheet1!$A$1:$A$2 is bound to {rng!r}, ranges registry keys {sorted(model.f["ranges"])}')
    ctx.expect(model.f['formulae'].get('Twice') is f_b1 and model.f['formulae'].get('Cached') is f_c1, bd,
               'names of formula cells are entered into the formulae map',
               f'formulae holds {sorted(model.f["formulae"])}: the names of formula cells must map to the formula of their cell')
    ctx.expect(got.get('Quoted') is cells['My Sheet!A1'], bd, 'defined-name target: sheet name unquoted',
               'the target of a defined name keeps the quotes around its sheet name (\'Other Sheet\'!$A$1), while cell keys use '
               'the bare sheet name: a name bound to a cell of a sheet whose name needs quotes is dropped with a warning')
    ctx.floor(9, 'defined-name witnesses')


def rule_5(ctx):
    mm = ctx.mod('model')
    pa = mm.func('ModelCompiler.parse_archive')
    order = []
    for c in sorted(flow.calls_in(pa), key=flow.pos):
        if isinstance(c.func, ast.Attribute) and c.func.attr in ('read_cells', 'read_defined_names', 'build_defined_names',
                                                                 'link_cells_to_defined_names', 'build_ranges'):
            order.append(c.func.attr)
    want = ['read_cells', 'read_defined_names', 'build_defined_names', 'link_cells_to_defined_names', 'build_ranges']
    ctx.expect(order == want, pa, 'parse_archive build order', f'build steps run as {order}, expected {want}')
    tgt = [a for a in walk_local(pa) if isinstance(a, ast.Assign) and any('read_cells' in ast.unparse(a.value) for _ in [0])]
    ok = bool(tgt) and isinstance(tgt[0].targets[0], ast.Tuple) and \
        [ast.unparse(e).split('.')[-1] for e in tgt[0].targets[0].elts] == ['cells', 'formulae', 'ranges']
    ctx.expect(ok, pa, 'read_cells result unpacked into cells, formulae, ranges', 'the maps returned by read_cells are bound to the wrong attributes')
    rp = mm.func('ModelCompiler.read_and_parse_archive')
    ok = any(isinstance(n, ast.If) and 'build_code' in ast.unparse(n.test) and 'build_code()' in ast.unparse(n) for n in walk_local(rp))
    ctx.expect(ok, rp, 'formulas are compiled after loading', 'read_and_parse_archive does not build the formula ASTs')
    ctx.floor(3, 'build order facts')


def rule_6(ctx):
    from . import c03
    c03.rule_7(ctx)


def rule_7(ctx):
    """The reference workbook (three sheets - one title a prefix of another, one with an apostrophe - defined names, the same
    formula texts on several sheets) loaded through Reader / parse_archive as written from a modelled openpyxl workbook that
    stores formulas with their cached results: get_cell_value returns the cached result before any evaluation, and evaluating
    the loaded model reproduces every cached result, in both evaluation orders."""
    from . import scenarios as S
    from . import workbook as W
    anchor = ctx.mod('reader').func('Reader.read_cells')
    cached = {k: v for k, v in S.REF_EXPECTED.items() if '!' in k}
    wb = W.Workbook(ctx, sheets=S.REF_SHEETS, names=S.REF_NAMES, cached=cached)
    n = 0
    for addr, want in cached.items():
        got = wb.get(addr)
        n += 1
        ctx.expect(S.same(got, want), anchor, f'cached result of {addr} before any evaluation',
                   f'get_cell_value({addr!r}) returns {got!r} right after loading, the workbook stores the cached result {want!r}')
    n += S.check_reference_workbook(ctx, anchor, 'loaded workbook',
                                    'Evaluating the loaded model gives the values the workbook itself stores (the same as a model built directly '
                                    'from the same cell contents).')
    # formulas stored with layout, a sheet title with a run of blanks: the loaded cell holds the stored text, character by character
    layout = {'Q1  Data': {'A1': 4, 'B1': '=A1*2', 'B2': '=SUM(A1:B1)'},
              'Summary': {'A1': 3, 'B1': "='Q1  Data'!B1+A1", 'B2': '=IF(A1>1,\n   A1*3,\n   0)', 'B3': '=A1 + \n A1', 'B4': '=A1&"  x  "&"a""  ""b"',
                          'B5': "=SUM('Q1  Data'!A1:B1)", 'B6': "=SUM( 'Q1  Data'!A1:B1 ,  A1 )", 'B7': '=total  +  1', 'B8': '=LEN("a\n\n  b")'}}
    lnames = {'total': "'Q1  Data'!$B$2"}
    lwant = {'Q1  Data!B1': 8, 'Q1  Data!B2': 12, 'Summary!B1': 11, 'Summary!B2': 9, 'Summary!B3': 6, 'Summary!B4': ('Text', '3  x  a"  "b'), 'Summary!B5': 12,
             'Summary!B6': 15, 'Summary!B7': 13, 'Summary!B8': 6, 'total': 12}
    wb = W.Workbook(ctx, sheets=layout, names=lnames)
    cells = wb.model.f.get('cells')
    for sheet, content in layout.items():
        for coord, text in content.items():
            if not (isinstance(text, str) and text.startswith('=')):
                continue
            addr = f'{sheet}!{coord}'
            cell = cells.get(addr) if isinstance(cells, dict) else None
            formula = cell.f.get('formula') if isinstance(cell, Rec) else None
            held = formula.f.get('formula') if isinstance(formula, Rec) else None
            n += 1
            ctx.expect(held == text, anchor, f'formula text of {addr} as stored',
                       f'the loaded cell {addr} holds the formula text {held!r}, the workbook stores {text!r}: a cell holds its formula text - layout, '
                       'runs of blanks inside quoted sheet titles and text literals included')
    for addr, want in lwant.items():
        got = wb.value(addr)
        n += 1
        ctx.expect(S.same(got, want), anchor, f'laid-out workbook: {addr}',
                   f'{addr} of the workbook {layout} with the name {lnames} evaluates to {got!r}, expected {want!r}')
    # names scoped to one sheet next to workbook names of the same name: the workbook name means what the workbook binds it to
    scoped = {'Rates': {'A2': 10, 'A3': 20, 'A4': 30, 'B1': 0.2, 'C1': '=Rate*1000', 'C2': '=SUM(Costs)'},
              'Budget 2024': {'A2': 1, 'A3': 2, 'B1': 0.5, 'C1': '=B1*2'},
              'Report': {'A1': 300, 'B1': '=A1*Rate', 'D1': '=Rate*100', 'E1': '=Only+1'}}
    snames = {'Rate': 'Rates!$B$1', 'Costs': 'Rates!$A$2:$A$4', 'Only': 'Report!$A$1',
              ('Budget 2024', 'Rate'): "'Budget 2024'!$B$1", ('Budget 2024', 'Costs'): "'Budget 2024'!$A$2:$A$3", ('Report', 'Rate'): 'Report!$A$1'}
    swant = {'Report!B1': 60, 'Rates!C1': 200, 'Report!D1': 20, 'Report!E1': 301, 'Budget 2024!C1': 1, 'Rate': 0.2, 'Only': 300}
    wb = W.Workbook(ctx, sheets=scoped, names=snames)
    for addr, want in swant.items():
        got = wb.value(addr)
        n += 1
        ctx.expect(S.same(got, want), anchor, f'workbook with sheet-scoped names: {addr}',
                   f'{addr} of the workbook {scoped} with the names {snames} (tuple keys: names scoped to that sheet) evaluates to {got!r}, expected '
                   f'{want!r}: a workbook-level name is bound to the cell the workbook binds it to')
    ctx.floor(87, 'loaded-workbook cells')


def _upstream_reader():
    """(path, parser parameters [(name, default expr or None)], {parameter: argument expression}) of the installed openpyxl's
    WorksheetReader.__init__ -> WorkSheetParser(...) call, read from its source file (nothing of openpyxl is imported)."""
    import os
    from xlsa.guards import _site_dirs
    for d in _site_dirs():
        path = os.path.join(d, 'openpyxl', 'worksheet', '_reader.py')
        if os.path.exists(path):
            break
    else:
        raise Unmodelled('installed openpyxl/worksheet/_reader.py not found')
    tree = ast.parse(open(path, encoding='utf-8').read())
    classes = {n.name: n for n in tree.body if isinstance(n, ast.ClassDef)}
    if 'WorksheetReader' not in classes or 'WorkSheetParser' not in classes:
        raise Unmodelled('openpyxl _reader.py has no WorksheetReader / WorkSheetParser')

    def init(cls):
        for n in cls.body:
            if isinstance(n, ast.FunctionDef) and n.name == '__init__':
                return n
        raise Unmodelled(f'openpyxl {cls.name} has no __init__')
    pinit = init(classes['WorkSheetParser'])
    args = pinit.args.args[1:]
    defaults = [None] * (len(args) - len(pinit.args.defaults)) + list(pinit.args.defaults)
    params = [(a.arg, dflt) for a, dflt in zip(args, defaults)]
    rinit = init(classes['WorksheetReader'])
    calls = [c for c in ast.walk(rinit) if isinstance(c, ast.Call) and isinstance(c.func, ast.Name) and c.func.id == 'WorkSheetParser']
    if len(calls) != 1:
        raise Unmodelled('openpyxl WorksheetReader.__init__ does not construct exactly one WorkSheetParser')
    bound = {}
    for (name, _), a in zip(params, calls[0].args):
        bound[name] = a
    for k in calls[0].keywords:
        bound[k.arg] = k.value
    return path, params, [a.arg for a in rinit.args.args[1:]], bound


def _chain(node, env):
    """Value of a name / attribute chain over nested dicts of tokens (all the upstream call uses)."""
    if isinstance(node, ast.Name) and node.id in env:
        return env[node.id]
    if isinstance(node, ast.Attribute):
        base = _chain(node.value, env)
        if isinstance(base, dict) and node.attr in base:
            return base[node.attr]
    raise Unmodelled(f'openpyxl passes {ast.unparse(node)}: not a chain over the constructor arguments')


def rule_8(ctx):
    """Sibling implementations: the package replaces openpyxl's WorksheetReader by a subclass whose constructor builds the
    package's WorkSheetParser. Whatever openpyxl's own constructor (read from the installed source) hands to its parser - the
    source, the shared strings, data_only, the workbook's EPOCH (1900 / 1904 date system), the date and timedelta formats,
    rich_text - the replacement must hand over too, parameter by parameter; and it must take the same constructor arguments."""
    pm = ctx.mod('patch')
    fn = pm.func('WorksheetReader.__init__')
    path, params, reader_params, bound = _upstream_reader()
    mine = func_params(fn)[1:]
    ctx.expect(mine == reader_params, fn, 'constructor parameters of the replacement reader',
               f'patch.WorksheetReader.__init__ takes {mine}, openpyxl calls its WorksheetReader with {reader_params}')
    tokens = {'ws': {'parent': {'epoch': 'EPOCH-OF-THE-WORKBOOK', '_date_formats': 'DATE-FORMATS', '_timedelta_formats': 'TIMEDELTA-FORMATS'}},
              'xml_source': 'XML-SOURCE', 'shared_strings': 'SHARED-STRINGS', 'data_only': 'DATA-ONLY', 'rich_text': 'RICH-TEXT'}
    want = {}
    for name, dflt in params:
        want[name] = _chain(bound[name], tokens) if name in bound else ('<default>', ast.unparse(dflt) if dflt is not None else None)
    seen = []

    def parser(*a, **k):
        seen.append((a, k))
        return Rec(cls='pkg:patch:WorkSheetParser')
    ws = Rec(parent=Rec(epoch='EPOCH-OF-THE-WORKBOOK', _date_formats='DATE-FORMATS', _timedelta_formats='TIMEDELTA-FORMATS'))
    env = dict(zip(func_params(fn), [Rec(cls='pkg:patch:WorksheetReader'), ws, 'XML-SOURCE', 'SHARED-STRINGS', 'DATA-ONLY', 'RICH-TEXT']))
    it = Interp(ctx.a, pm, env, inline_pkg=True, scope_fn=fn, self_class='pkg:patch:WorksheetReader', call_models={'pkg:patch:WorkSheetParser': parser})
    out = it.run(fn.body)
    if out.end not in ('return', 'fallthrough', 'end') and out.end == 'raise':
        raise Unmodelled(f'patch.WorksheetReader.__init__ ends in {out.end} {out.value!r}')
    if len(seen) != 1:
        raise Unmodelled(f'patch.WorksheetReader.__init__ constructs {len(seen)} parsers')
    a, k = seen[0]
    got = {}
    for (name, dflt), v in zip(params, a):
        got[name] = v
    got.update(k)
    for name, dflt in params:
        have = got.get(name, ('<default>', ast.unparse(dflt) if dflt is not None else None))
        ctx.expect(have == want[name], fn, f'the parser gets {name} as openpyxl\'s own reader passes it',
                   f'openpyxl ({path.split("site-packages/")[-1]}) constructs its parser with {name} = {want[name]!r}; the replacement passes {have!r}: '
                   'the replacement reader must read a workbook the way the reader it replaces does (date system, formats, shared strings)')
    extra = sorted(set(got) - {n for n, _ in params})
    ctx.expect(not extra, fn, 'no parameter the parser does not have', f'the replacement passes {extra} which openpyxl\'s parser does not take')
    ctx.floor(len(params) + 2, 'parser parameters')


RULES = [
    ('C11.1', 'ignored sheets contribute no cells', rule_1),
    ('C11.2', 'defined names honour ignore_sheets', rule_2),
    ('C11.3', 'what a formula cell stores', rule_3),
    ('C11.4', 'defined-name targets are normalised like cell keys', rule_4),
    ('C11.5', 'build order of parse_archive', rule_5),
    ('C11.6', 'range targets of defined names are unquoted by the address resolvers (shared with C03.7)', rule_6),
    ('C11.7', 'reference workbook loaded through the reader path: cached results, evaluation reproduces them', rule_7),
    ('C11.8', 'the replacement openpyxl reader hands its parser what openpyxl\'s own reader hands over (sibling agreement)', rule_8),
]
