"""End-to-end decision tables of the formula front end (shared by C01 and C02).

Witness formulas are pushed through FormulaParser.parse as written - the tokenizer, its post-processing passes, the
shunting-yard loop, build_ast - by constant propagation, and the resulting tree is read back by evaluating it with symbolic
operator functions (the node classes' own eval). Nothing here looks at the shape of the parser's code, so any refactoring
of it that keeps the trees keeps the verdict, and any change of a tree changes it.
"""
import ast

from xlsa import Unmodelled, AnchorMissing
from xlsa.consteval import Ref
from xlsa.guards import Interp, Rec, PyModel, Opaque, World

AN = 'pkg:ast_nodes:'
XLT = 'pkg:xlfunctions.func_xltypes:'

# Excel's binary operators by binding strength (property C01); all associate to the left
BINARY_LEVELS = [['^'], ['*', '/'], ['+', '-'], ['&'], ['=', '<>', '<', '>', '<=', '>=']]
LEVEL = {op: len(BINARY_LEVELS) - i for i, ops in enumerate(BINARY_LEVELS) for op in ops}
BINARY = [op for ops in BINARY_LEVELS for op in ops]


def operator_models(ctx):
    """Symbolic stand-ins for the functions behind the operator tables of ast_nodes: every module-level dict that maps
    operator texts to registered functions is honoured, whatever it is called."""
    am = ctx.mod('ast_nodes')
    models = {}
    found = 0
    for name in am.assigns:
        node = am.assign(name)
        if not isinstance(node, ast.Dict):
            continue
        try:
            val = ctx.fold(node, am)
        except Exception:
            continue
        if isinstance(val, dict) and val and all(isinstance(k, str) and isinstance(v, Ref) for k, v in val.items()):
            for text, v in val.items():
                found += 1
                models.setdefault(v.ref, (lambda *a, _t=text: ('op', _t) + tuple(_norm(x) for x in a)))
    if found < 13:
        raise AnchorMissing(f'operator -> function tables of ast_nodes ({found} entries found)')

    def function_node(interp, self_, context):
        """A function call read back symbolically: name and the (symbolic) values of its argument trees."""
        from xlsa.guards import BoundMethod
        vals = []
        for a in (self_.get('args') or []):
            cm, meth = interp._find_method(a.f['cls'], 'eval')
            vals.append(_norm(interp.invoke(BoundMethod(a, cm, meth, a.f['cls']), [context])))
        return ('call', str(self_.get('token').get('tvalue')).upper()) + tuple(vals)
    function_node.wants_interp = True
    models[AN + 'FunctionNode.eval'] = function_node
    return models


def _norm(v):
    if isinstance(v, Rec) and isinstance(v.f.get('cls'), str) and 'value' in v.f:
        return v.f['value']
    if isinstance(v, tuple):
        return tuple(_norm(x) for x in v)
    return v


import re as _re
_REF_RE = _re.compile(r"^(?:[^!]+!)?\$?[A-Za-z]{1,3}\$?\d+(?::\$?[A-Za-z]{1,3}\$?\d+)?$")


def refify(tree):
    """Expected trees are written with bare reference texts ('A1', 'Sheet2!A1:B2'); in the trees read back a reference is
    ('ref', text) - so that a text literal can never pass for a reference or the other way round."""
    if isinstance(tree, str) and _REF_RE.match(tree):
        return ('ref', tree)
    if isinstance(tree, tuple) and tree and tree[0] in ('op', 'call'):
        return tree[:2] + tuple(refify(x) for x in tree[2:])
    return tree


def parse_tree(ctx, formula, models=None, world=None, names=None):
    """Nested tuple of the tree FormulaParser.parse builds for the formula: ('op', text, operands...), reference texts,
    literal values; ('raise', class) when parsing or reading the tree fails. `names`: the defined-name table handed to parse."""
    pm = ctx.mod('parser')
    world = world if world is not None else World()
    it = Interp(ctx.a, pm, {'p': Rec(cls='pkg:parser:FormulaParser'), 'f': formula, 'n': dict(names or {})}, inline_pkg=True, world=world)
    out = it.run([ast.parse('return p.parse(f, n)').body[0]])
    if out.end == 'raise':
        return ('raise', out.value.ref.rpartition(':')[2] if isinstance(out.value, Ref) else repr(out.value))
    if out.end != 'return' or not isinstance(out.value, Rec):
        raise Unmodelled(f'FormulaParser.parse({formula!r}) ends in {out.end} {out.value!r}')
    return tree_of_node(ctx, out.value, models, world)


def tree_of_node(ctx, node, models=None, world=None):
    """The nested tuple of a tree that already exists (a parse result, the .ast of a compiled cell)."""
    am = ctx.mod('ast_nodes')
    models = dict(models if models is not None else operator_models(ctx))
    models.setdefault(AN + 'RangeNode.eval', lambda self_, context: ('ref', self_.get('token').get('tvalue')))
    world = world if world is not None else World()
    ev = Interp(ctx.a, am, {'node': node, 'context': Rec(cls=AN + 'EvalContext', ref='S!Z9', sheet='S', refsheet='S', namespace={})},
                inline_pkg=True, world=world, call_models=models)
    res = ev.run([ast.parse('return node.eval(context)').body[0]])
    if res.end == 'raise':
        return ('raise', res.value.ref.rpartition(':')[2] if isinstance(res.value, Ref) else repr(res.value))
    return _norm(res.value)


def tokens_of(ctx, formula, world=None, tokenize_range=False):
    """[(text, type, sub-type)] of FormulaParser.tokenize(formula)."""
    pm = ctx.mod('parser')
    it = Interp(ctx.a, pm, {'p': Rec(cls='pkg:parser:FormulaParser'), 'f': formula, 'tr': tokenize_range}, inline_pkg=True,
                world=world if world is not None else World())
    out = it.run([ast.parse('return p.tokenize(f, tr) if tr else p.tokenize(f)').body[0]])
    if out.end == 'raise':
        return ('raise', out.value.ref.rpartition(':')[2] if isinstance(out.value, Ref) else repr(out.value))
    if out.end != 'return' or not isinstance(out.value, list):
        raise Unmodelled(f'FormulaParser.tokenize({formula!r}) ends in {out.end}')
    return [(t.f.get('tvalue'), t.f.get('ttype'), t.f.get('tsubtype')) for t in out.value if isinstance(t, Rec)]


def binary_pair_rows():
    """(formula, expected tree) for every ordered pair of binary operators."""
    rows = []
    for a in BINARY:
        for b in BINARY:
            f = f'=A1{a}B1{b}C1'
            if LEVEL[a] >= LEVEL[b]:
                want = ('op', b, ('op', a, 'A1', 'B1'), 'C1')
            else:
                want = ('op', a, 'A1', ('op', b, 'B1', 'C1'))
            rows.append((f, want))
    return rows


def unary_rows():
    rows = []
    neg = lambda x: ('op', '-', x)      # noqa: E731  (prefix table: one operand)
    for b in BINARY:
        rows.append((f'=-A1{b}B1', ('op', b, neg('A1'), 'B1')))
        rows.append((f'=A1{b}-B1', ('op', b, 'A1', neg('B1'))))
        rows.append((f'=A1{b}+B1', ('op', b, 'A1', 'B1')))          # unary plus is a no-op
    rows += [('=--A1', neg(neg('A1'))), ('=-(A1+B1)', neg(('op', '+', 'A1', 'B1'))), ('=-A1', neg('A1')), ('=+A1', 'A1'),
             ('=(-A1)^B1', ('op', '^', neg('A1'), 'B1')), ('=A1*(-B1)', ('op', '*', 'A1', neg('B1'))),
             ('=A1--B1', ('op', '-', 'A1', neg('B1'))), ('=(A1)-B1', ('op', '-', 'A1', 'B1')), ('=SUM(A1)-B1', None)]
    return [r for r in rows if r[1] is not None]


def percent_rows():
    """A percent sign after a number literal: the literal divided by 100, binding tighter than every binary operator."""
    rows = []
    for b in BINARY:
        rows.append((f'=A1{b}50%', ('op', b, 'A1', 0.5)))
        rows.append((f'=50%{b}A1', ('op', b, 0.5, 'A1')))
    rows += [('=50%', 0.5), ('=-50%', ('op', '-', 0.5)), ('=2.5%', 0.025)]
    return rows


def paren_and_chain_rows():
    rows = []
    for a, b in (('*', '+'), ('^', '*'), ('-', '-'), ('/', '/'), ('&', '='), ('=', '&'), ('^', '^'), ('<', '+')):
        rows.append((f'=A1{a}(B1{b}C1)', ('op', a, 'A1', ('op', b, 'B1', 'C1'))))
        rows.append((f'=(A1{a}B1){b}C1', ('op', b, ('op', a, 'A1', 'B1'), 'C1')))
    for op in ('-', '/', '^', '&', '+', '*'):
        rows.append((f'=A1{op}B1{op}C1{op}D1', ('op', op, ('op', op, ('op', op, 'A1', 'B1'), 'C1'), 'D1')))
    rows.append(('=((A1+B1))*C1', ('op', '*', ('op', '+', 'A1', 'B1'), 'C1')))
    rows.append(('=A1+B1*C1^D1', ('op', '+', 'A1', ('op', '*', 'B1', ('op', '^', 'C1', 'D1')))))
    rows.append(('=A1^B1*C1+D1', ('op', '+', ('op', '*', ('op', '^', 'A1', 'B1'), 'C1'), 'D1')))
    rows.append(('=A1&B1+C1=D1', ('op', '=', ('op', '&', 'A1', ('op', '+', 'B1', 'C1')), 'D1')))
    return rows


def blank_variants(formula):
    """The same formula with blanks around operators and parentheses (where Excel allows them without changing the meaning)."""
    out = []
    body = formula[1:]
    spaced = ''
    i = 0
    while i < len(body):
        two = body[i:i + 2]
        if two in ('<>', '<=', '>='):
            spaced += f' {two} '
            i += 2
            continue
        ch = body[i]
        if ch in '^*/+&=<>':
            spaced += f' {ch} '
        elif ch == '-' and i > 0 and body[i - 1] not in '^*/+-&=<>(':
            spaced += ' - '
        else:
            spaced += ch
        i += 1
    out.append('=' + spaced)
    out.append('= ' + body + ' ')
    return out


# ------------------------------------------------------------------------------------------------------------------
# blanks: dropped, or the intersection operator between something that ends a value and something that starts one
# ------------------------------------------------------------------------------------------------------------------
LEFT_CONTEXTS = [
    # text before the blank, does it end a value?, what must follow the right context to close the formula
    ('A1', True, ''), ('5', True, ''), ('"t"', True, ''), ('SUM(B1)', True, ''), ('(B1)', True, ''), ('B1:B3', True, ''),
    ('A1+', False, ''), ('A1&', False, ''), ('A1>=', False, ''), ('SUM(', False, ')'), ('(', False, ')'), ('SUM(A1,', False, ')'), ('', False, ''),
]
RIGHT_CONTEXTS = [
    # text after the blank, does it start a value?, may it stand after an incomplete left context (operator / opener)?
    ('C1', True, True), ('7', True, True), ('"u"', True, True), ('SUM(D1)', True, True), ('(D1)', True, True), ('C1:C3', True, True),
    ('+C1', False, False), ('*C1', False, False), ('=C1', False, False), ('', False, False),
]


def blank_rows():
    """(formula with one blank, the same without it, must the blank become the intersection operator?)"""
    rows = []
    for ltext, lends, closer in LEFT_CONTEXTS:
        for rtext, rstarts, after_open in RIGHT_CONTEXTS:
            incomplete = ltext.endswith(('+', '&', '>=', '(', ',')) or ltext == ''
            if incomplete and not after_open and rtext != '':
                continue        # "A1+ +C1" is a different formula, "( )" / "= " are covered by the closer rows below
            if ltext == '' and rtext == '':
                continue
            if incomplete and rtext == '' and closer == '':
                continue        # "=A1+ " is not a formula
            with_blank = '=' + ltext + ' ' + rtext + closer
            if lends and rstarts:
                rows.append((with_blank, ('=' + ltext, '=' + rtext), True))     # tokens(left) + intersect + tokens(right)
            else:
                rows.append((with_blank, '=' + ltext + rtext + closer, False))
    # blanks next to closers and separators inside a call
    rows += [('=SUM(A1 )', '=SUM(A1)', False), ('=SUM(A1 ,B1)', '=SUM(A1,B1)', False), ('=SUM( A1, B1 )', '=SUM(A1,B1)', False),
             ('=(A1 )', '=(A1)', False), ('=( A1)', '=(A1)', False), ('=A1 ', '=A1', False), ('= A1', '=A1', False)]
    return rows
