"""C09 - comparison operators implement one total order on values (structural part)."""
import ast

from xlsa import Unmodelled, AnchorMissing
from xlsa.consteval import Ref, Obj, Unfoldable
from xlsa.guards import Interp, Rec, PyModel, Opaque
from xlsa.load import walk_local, names_in, dotted
from xlsa import flow
from .common import func_params, value_returns, last_return, XLERR, XLT, PY_CMPOP

PROPERTY = 'C09'
EXPLANATION = (
    'Decided from source: (C09.1) the six rich comparisons of the base value class apply their own Python operator to '
    'the same pair of keys (self key first) after normalising the other operand; (C09.2) type precedence Number(=DateTime '
    'as serial) < Text < Boolean, FALSE < TRUE, from the folded sort_precedence/_sort_key definitions; (C09.3) a class that '
    'overrides a rich comparison overrides all six and defers to the precedence mechanism for an operand of another '
    'class (type test dominating the comparison of values), folding both operands with the same case function; (C09.4) '
    'blank conversions: every concrete class returns a non-blank value of its own kind, Blank against Blank has a base '
    'case (no unbounded mutual recursion); (C09.5) the six OP_* comparison wrappers apply their own operator to (left, '
    'right) in that order - a mirrored delegation is accepted only while no class has asymmetric overrides - and the four '
    'ordering wrappers share one blank short-circuit.')
NOT_DECIDED = 'trichotomy / transitivity over concrete strings and floats'
TRUSTED = ['tuple comparison semantics of Python for the (precedence, value) keys']

CMP = {'__lt__': ast.Lt, '__le__': ast.LtE, '__eq__': ast.Eq, '__ne__': ast.NotEq, '__gt__': ast.Gt, '__ge__': ast.GtE}
WRAPPERS = {'OP_EQ': ast.Eq, 'OP_NE': ast.NotEq, 'OP_GT': ast.Gt, 'OP_LT': ast.Lt, 'OP_GE': ast.GtE, 'OP_LE': ast.LtE}
MIRROR = {'OP_GT': 'OP_LT', 'OP_LT': 'OP_GT', 'OP_GE': 'OP_LE', 'OP_LE': 'OP_GE', 'OP_EQ': 'OP_EQ', 'OP_NE': 'OP_NE'}


def _cmp_in_return(fn):
    r = last_return(fn)
    if r is None:
        return None
    cmps = [c for c in ast.walk(r.value) if isinstance(c, ast.Compare)]
    return cmps[0] if len(cmps) == 1 else None


def rule_1(ctx):
    fm = ctx.mod('xlfunctions.func_xltypes')
    shapes = {}
    for name, opcls in CMP.items():
        fn = fm.func(f'ExcelType.{name}')
        p = func_params(fn)
        c = _cmp_in_return(fn)
        ok = c is not None and len(c.ops) == 1 and type(c.ops[0]) is opcls
        why = f'{name} applies {type(c.ops[0]).__name__ if c is not None else "no single comparison"}, expected {opcls.__name__}'
        if ok:
            l, r = c.left, c.comparators[0]
            # self._sort_key(other)  vs  other._sort_key(self)
            def key_of(e):
                if isinstance(e, ast.Call) and isinstance(e.func, ast.Attribute) and isinstance(e.func.value, ast.Name):
                    return (e.func.value.id, e.func.attr, tuple(ast.unparse(a) for a in e.args))
                return None
            kl, kr = key_of(l), key_of(r)
            ok = kl is not None and kr is not None and kl[0] == p[0] and kr[0] == p[1] and kl[1] == kr[1] \
                and kl[2] == (p[1],) and kr[2] == (p[0],)
            why = f'{name} compares `{ast.unparse(l)}` with `{ast.unparse(r)}`: not self-key (op) other-key'
            shapes[name] = (kl and kl[1])
        ctx.expect(ok, fn, f'ExcelType.{name}', why)
        norm = [a for a in walk_local(fn) if isinstance(a, ast.Assign) and isinstance(a.targets[0], ast.Name)
                and a.targets[0].id == p[1] and isinstance(a.value, ast.Call)
                and ctx.res.resolve(a.value.func, fm) == XLT + 'ExcelType.cast_from_native']
        ctx.expect(len(norm) == 1, fn, f'ExcelType.{name} normalises the other operand',
                   f'{name} does not convert a native other operand with cast_from_native first')
    ctx.expect(len(set(shapes.values())) == 1, fm.cls('ExcelType'), 'six comparisons use the same key function',
               f'the comparisons use different key functions: {shapes}')
    ctx.floor(13, 'six comparisons x (operator/keys, normalisation) + agreement')


def rule_2(ctx):
    fm = ctx.mod('xlfunctions.func_xltypes')
    prec = {}
    for c in ('ExcelType', 'Number', 'Text', 'Boolean', 'DateTime', 'Blank'):
        cm, val = ctx.res.class_attr(XLT + c, 'sort_precedence')
        prec[c] = ctx.fold(val, cm)
    ctx.expect(prec['Number'] < prec['Text'] < prec['Boolean'], fm.cls('Text'), 'Number < Text < Boolean',
               f'type precedence is Number={prec["Number"]}, Text={prec["Text"]}, Boolean={prec["Boolean"]}: every number must be '
               'smaller than every text and every text smaller than FALSE')
    ctx.expect(prec['DateTime'] == prec['Number'], fm.cls('DateTime'), 'dates rank as numbers',
               'DateTime does not share the precedence of Number')
    # base key = (precedence, value)
    base = fm.func('ExcelType._sort_key')
    r = last_return(base)
    ok = r is not None and isinstance(r.value, ast.Tuple) and len(r.value.elts) == 2 \
        and ast.unparse(r.value.elts[0]) == 'self.sort_precedence' and ast.unparse(r.value.elts[1]) == 'self.value'
    ctx.expect(ok, base, 'base key = (precedence, value)', 'the base sort key is not (sort_precedence, value)')
    bk = fm.func('Boolean._sort_key')
    r = last_return(bk)
    ok = r is not None and isinstance(r.value, ast.Tuple) and ast.unparse(r.value.elts[0]) == 'self.sort_precedence' \
        and ast.unparse(r.value.elts[1]) in ('int(self.value)', 'self.value')
    ctx.expect(ok, bk, 'Boolean key = (precedence, FALSE<TRUE)', 'Boolean sort key does not order FALSE before TRUE within its class')
    dk = fm.func('DateTime._sort_key')
    r = last_return(dk)
    ok = r is not None and '__Number__()' in ast.unparse(r.value) and '_sort_key' in ast.unparse(r.value)
    ctx.expect(ok, dk, 'DateTime key = key of its serial number', 'a date is not compared as its serial number')
    # Text keeps its case out of the base key? Text has no _sort_key override: text-vs-text goes through its overrides (C09.3)
    ctx.floor(5, 'precedence facts')


def _type_aware(ctx, fn, m):
    """Does the override defer to the precedence mechanism when `other` is of another class?"""
    p = func_params(fn)
    other = p[1]
    c = _cmp_in_return(fn)
    if c is None:
        return False, 'no single comparison in the returned value'
    txt = ast.unparse(fn)
    if '_sort_key' in txt or 'sort_precedence' in txt or 'super()' in txt:
        return True, ''
    # an isinstance/type test on `other` that dominates the value comparison and covers "not my class"
    conds = flow.path_conditions(c)
    for cd in conds:
        for x in ast.walk(cd.test):
            if isinstance(x, ast.Call) and isinstance(x.func, ast.Name) and x.func.id == 'isinstance' \
                    and isinstance(x.args[0], ast.Name) and x.args[0].id == other:
                cls = ctx.res.resolve(x.args[1], m) if not isinstance(x.args[1], ast.Tuple) else None
                own = f'pkg:{m.name}:{fn._qual.rsplit(".", 1)[0]}'
                if cls == own and cd.polarity:
                    return True, ''
                if cls == own and cd.kind == 'guard' and not cd.polarity:
                    # `if not isinstance(other, Text): return <deferred>` pattern
                    return True, ''
    return False, (f'compares `{ast.unparse(c)[:60]}` whatever the class of `{other}` is: a number/boolean operand is '
                   'compared as text instead of by type precedence')


def _overrides(ctx):
    fm = ctx.mod('xlfunctions.func_xltypes')
    out = {}
    for qual, cnode in fm.classes.items():
        ref = XLT + qual
        if qual == 'ExcelType' or not ctx.res.is_subclass(ref, XLT + 'ExcelType'):
            continue
        own = [s.name for s in cnode.body if isinstance(s, ast.FunctionDef) and s.name in CMP]
        if own:
            out[qual] = own
    return fm, out


def asymmetric_overrides(ctx):
    """True when some class overrides comparisons without type-awareness (then a > b <=> b < a cannot be assumed)."""
    fm, ov = _overrides(ctx)
    for qual, names in ov.items():
        for name in names:
            ok, _ = _type_aware(ctx, fm.func(f'{qual}.{name}'), fm)
            if not ok:
                return True
    return False


def rule_3(ctx):
    fm, ov = _overrides(ctx)
    n = 0
    for qual, names in sorted(ov.items()):
        missing = sorted(set(CMP) - set(names))
        n += 1
        ctx.expect(not missing, fm.cls(qual), f'{qual} overrides all six comparisons or none',
                   f'{qual} overrides {sorted(names)} but not {missing}: the overridden and the inherited comparisons use '
                   'different notions of equality/order, so a=b, a<b, a>b are no longer mutually exclusive')
        folds = {}
        for name in names:
            fn = fm.func(f'{qual}.{name}')
            n += 1
            c = _cmp_in_return(fn)
            ok = c is not None and type(c.ops[0]) is CMP[name]
            ctx.expect(ok, fn, f'{qual}.{name} applies its own operator',
                       f'{qual}.{name} applies {type(c.ops[0]).__name__ if c is not None else "?"}')
            aware, why = _type_aware(ctx, fn, fm)
            ctx.expect(aware, fn, f'{qual}.{name} is type-aware', f'{qual}.{name} {why}')
            if c is not None:
                def fold_fn(e):
                    return tuple(sorted({x.func.attr for x in ast.walk(e) if isinstance(x, ast.Call)
                                         and isinstance(x.func, ast.Attribute) and x.func.attr in ('upper', 'lower', 'casefold')}))
                fl, fr = fold_fn(c.left), fold_fn(c.comparators[0])
                folds[name] = (fl, fr)
                ctx.expect(fl == fr and fl, fn, f'{qual}.{name} folds case on both sides alike',
                           f'{qual}.{name} folds case with {fl} on the left and {fr} on the right')
        ctx.expect(len(set(folds.values())) <= 1, fm.cls(qual), f'{qual}: same case folding in all overrides',
                   f'overrides of {qual} fold case differently: {folds}')
    ctx.floor(10, 'override sets')


def rule_4(ctx):
    fm = ctx.mod('xlfunctions.func_xltypes')
    want = {'Number': 'Number', 'Text': 'Text', 'Boolean': 'Boolean', 'DateTime': None}
    for c in ('Number', 'Text', 'Boolean', 'DateTime'):
        cm, fn = ctx.res.class_attr(XLT + c, '__Blank__')
        r = last_return(fn) if isinstance(fn, ast.FunctionDef) else None
        ok = False
        why = f'{c}.__Blank__ missing'
        if r is not None:
            v = r.value
            if isinstance(v, ast.Constant) and v.value is None:
                why = (f'{c}.__Blank__ returns None: comparing a blank with a {c} calls None._sort_key and raises '
                       'AttributeError')
            elif isinstance(v, ast.Call):
                tgt = ast.unparse(v.func)
                ok = tgt in ('self.__class__', c, 'Number') and len(v.args) == 1
                why = f'{c}.__Blank__ returns `{ast.unparse(v)}`'
                if ok and isinstance(v.args[0], ast.Constant):
                    neutral = {'Number': 0, 'Text': '', 'Boolean': False, 'DateTime': 0}[c]
                    ok = v.args[0].value == neutral and type(v.args[0].value) is type(neutral)
                    why = f'blank equivalent of {c} is {v.args[0].value!r}, expected {neutral!r}'
        ctx.expect(ok, fn if fn is not None else fm.cls(c), f'{c}.__Blank__ yields the neutral {c}', why)
    # Blank vs Blank terminates: Blank._sort_key must not call other.__Blank__()._sort_key(self) when other is a Blank
    bk = fm.func('Blank._sort_key')
    p = func_params(bk)
    rec_calls = [c for c in flow.calls_in(bk) if isinstance(c.func, ast.Attribute) and c.func.attr == '_sort_key'
                 and '__Blank__' in ast.unparse(c.func.value)]
    ok = True
    for c in rec_calls:
        conds = flow.path_conditions(c)
        based = any(any(isinstance(x, ast.Call) and isinstance(x.func, ast.Name) and x.func.id == 'isinstance'
                        and isinstance(x.args[0], ast.Name) and x.args[0].id == p[1]
                        and ctx.res.resolve(x.args[1], fm) == XLT + 'Blank' for x in ast.walk(cd.test))
                    and not cd.polarity for cd in conds)
        ok = ok and based
    ctx.expect(ok, bk, 'Blank._sort_key has a base case for Blank vs Blank',
               'Blank._sort_key asks the other operand for its blank equivalent even when the other operand is a Blank: '
               'the two call each other until RecursionError (=A1=B1 on two empty cells)')
    # the base case compares as equal numbers: key independent of `other`
    ctx.floor(5, 'blank conversions')


def rule_5(ctx):
    om = ctx.mod('xlfunctions.operator')
    asym = asymmetric_overrides(ctx)
    guards = {}
    for name, opcls in WRAPPERS.items():
        fn = om.func(name)
        p = func_params(fn)
        r = last_return(fn)
        ok = False
        why = f'{name} does not end in `return {p[0]} (op) {p[1]}`'
        if r is not None and isinstance(r.value, ast.Compare) and len(r.value.ops) == 1:
            c = r.value
            ok = type(c.ops[0]) is opcls and isinstance(c.left, ast.Name) and c.left.id == p[0] \
                and isinstance(c.comparators[0], ast.Name) and c.comparators[0].id == p[1]
            why = f'{name} returns `{ast.unparse(c)}`'
        elif r is not None and isinstance(r.value, ast.Call) and isinstance(r.value.func, ast.Name) \
                and r.value.func.id == MIRROR[name] and len(r.value.args) == 2 \
                and [ast.unparse(a) for a in r.value.args] == [p[1], p[0]]:
            ok = not asym
            why = (f'{name} delegates to {MIRROR[name]}({p[1]}, {p[0]}): a > b <=> b < a only holds for a symmetric order, '
                   'but Text overrides the comparisons without looking at the other operand\'s type, so the result now depends '
                   'on which operand\'s method runs (2>"1" becomes TRUE)')
        ctx.expect(ok, fn, f'{name} applies its own operator to (left, right)', why)
        if name in ('OP_GT', 'OP_LT', 'OP_GE', 'OP_LE'):
            g = [n for n in fn.body if isinstance(n, ast.If)]
            guards[name] = tuple(ast.dump(x.test) + '->' + ast.dump(x.body[0]) for x in g)
    ctx.expect(len(set(guards.values())) == 1, om.func('OP_GT'), 'ordering wrappers share one blank short-circuit',
               'the four ordering wrappers treat blanks differently')
    ctx.floor(7, 'six wrappers + shared guard')


RULES = [
    ('C09.1', 'the six base comparisons agree', rule_1),
    ('C09.2', 'type precedence', rule_2),
    ('C09.3', 'overrides are complete and type-aware', rule_3),
    ('C09.4', 'blank conversions are total and terminate', rule_4),
    ('C09.5', 'comparison wrappers', rule_5),
]
