"""C09 - comparison operators implement one total order on values (structural part)."""
import ast

from xlsa import Unmodelled, AnchorMissing
from xlsa.consteval import Ref, Obj, Unfoldable
from xlsa.guards import Interp, Rec, PyModel, Opaque
from xlsa.load import walk_local, names_in, dotted
from xlsa import flow
from .common import func_params, value_returns, last_return, XLERR, XLT, PY_CMPOP

PROPERTY = 'C09'
EXPLANATION = (
    'Decided from source: On the real comparison methods of the value classes, by constant propagation (dunder dispatch, '
    'casts, blank conversion as written): (C09.1) the six comparisons on numbers, dates and booleans (a text on the right) '
    'each apply their own relation of the one total order; (C09.2) every number < every text < FALSE < TRUE, a date ranks '
    'as its serial; (C09.3) a text on the left of a number or boolean is ordered by type, per operator (known finding F17);'
    ' (C09.4) a blank against every class in both operand positions is the neutral value of that class (known finding F18 '
    'for DateTime), two blanks are equal; (C09.5) the six OP_* operators as the evaluator calls them (registered objects: '
    'wrappers, private decorators, bodies as written) on every ordered pair of representative non-blank values compute '
    'their own relation of the one total order with the operands in written order; (C09.6) the whole comparison table - 13 '
    'representative values of all classes x 13 x six operators - on the real comparison methods against one total order, '
    'except text-left/non-text-right pairs (F17); (C09.7) constant cells evaluate to the value class of their content ("" '
    'is a text, None a blank). (C09.6) 22 representative values incl. numeric-looking texts; (C09.8) the ordered '
    'comparisons as library calls on native arguments made one after the other in one process, forwards and backwards '
    '(functools.lru_cache is modelled as a real memo keyed by hash and equality).'
    ' (C09.6) also order laws on texts whose case forms change length, dates on both sides of serial 60 against numbers; (C09.8) keyword forms of the ordered wrappers, = / <> between value instances and native values.')
NOT_DECIDED = 'trichotomy / transitivity over concrete strings and floats'
TRUSTED = ['tuple comparison semantics of Python for the (precedence, value) keys', 'functools.lru_cache keyed by hash/equality of the arguments (True == 1 == 1.0 unless typed)']

CMP = {'__lt__': ast.Lt, '__le__': ast.LtE, '__eq__': ast.Eq, '__ne__': ast.NotEq, '__gt__': ast.Gt, '__ge__': ast.GtE}
WRAPPERS = {'OP_EQ': ast.Eq, 'OP_NE': ast.NotEq, 'OP_GT': ast.Gt, 'OP_LT': ast.Lt, 'OP_GE': ast.GtE, 'OP_LE': ast.LtE}
MIRROR = {'OP_GT': 'OP_LT', 'OP_LT': 'OP_GT', 'OP_GE': 'OP_LE', 'OP_LE': 'OP_GE', 'OP_EQ': 'OP_EQ', 'OP_NE': 'OP_NE'}


def _isinst(ctx):
    def isinst(val, refs):
        refs = refs if isinstance(refs, tuple) else (refs,)
        cls = getattr(val, 'cls', None) if isinstance(val, PyModel) else (val.get('cls') if isinstance(val, Rec) and 'cls' in val.f else None)
        return bool(cls) and any(r and ctx.res.is_subclass(cls, r) for r in refs)
    return isinst


def _models():
    import operator as op
    m = {f'ext:operator.{n}': getattr(op, n) for n in ('lt', 'le', 'eq', 'ne', 'gt', 'ge')}
    m[XLT + 'ExcelType.cast_from_native'] = lambda v: v
    return m


PYOPS = {'__lt__': lambda a, b: a < b, '__le__': lambda a, b: a <= b, '__eq__': lambda a, b: a == b,
         '__ne__': lambda a, b: a != b, '__gt__': lambda a, b: a > b, '__ge__': lambda a, b: a >= b}


import datetime as _dtm

_SYMS = {'__lt__': '<', '__le__': '<=', '__eq__': '==', '__ne__': '!=', '__gt__': '>', '__ge__': '>='}


def _N(v):
    return Rec(cls=XLT + 'Number', value=v)


def _T(v):
    return Rec(cls=XLT + 'Text', value=v)


def _B(v):
    return Rec(cls=XLT + 'Boolean', value=v)


def _D(y, m, d):
    return Rec(cls=XLT + 'DateTime', value=_dtm.datetime(y, m, d))


def _BL():
    return Rec(cls=XLT + 'Blank', value=None)


def _cmp(ctx, world, a, b, name):
    """`a <op> b` on the real comparison methods of the value classes (dunder dispatch, casts, blank conversion as written):
    True / False, or a text describing how it ended."""
    fm = ctx.mod('xlfunctions.func_xltypes')
    it = Interp(ctx.a, fm, {'a': a, 'b': b}, inline_pkg=True, world=world)
    try:
        out = it.run([ast.parse(f'return a {_SYMS[name]} b').body[0]])
    except Unmodelled as exc:
        if 'inlining deeper than' in str(exc):
            return '<the comparison calls itself without end (RecursionError)>'
        raise
    if out.end == 'return' and isinstance(out.value, Rec) and out.value.f.get('cls') == XLT + 'Boolean':
        return out.value.f.get('value')
    if out.end == 'return' and isinstance(out.value, bool):
        return out.value
    return f'<{out.end} {out.value!r}>'


def rule_1(ctx):
    """The six comparisons of the value classes on numbers, dates and booleans (and a text on the right): each applies its own
    relation of the one total order to (left, right) - on the real methods, by constant propagation."""
    from xlsa.guards import World
    fm = ctx.mod('xlfunctions.func_xltypes')
    anchor = fm.cls('ExcelType')
    vals = [('-1', _N(-1), (0, -1)), ('0', _N(0), (0, 0)), ('2.5', _N(2.5), (0, 2.5)), ('61', _N(61), (0, 61)), ('1900-03-01', _D(1900, 3, 1), (0, 61)),
            ('2023-03-15', _D(2023, 3, 15), (0, 45000)), ('FALSE', _B(False), (2, 0)), ('TRUE', _B(True), (2, 1)), ('"a"', _T('a'), (1, 'A'))]
    world = World()
    for name in CMP:
        wrong = []
        for la, a, ka in vals:
            if ka[0] == 1:
                continue            # a text on the left: C09.3
            for lb, b, kb in vals:
                got = _cmp(ctx, world, a, b, name)
                want = PYOPS[name](ka, kb)
                if got is not want:
                    wrong.append(f'{la} {_SYMS[name]} {lb} gives {got!r}, expected {want!r}')
        ctx.expect(not wrong, anchor, f'ExcelType.{name}',
                   '; '.join(wrong[:4]) + ': the six comparisons must apply their own operator to the places of both operands in the one '
                   'total order (numbers and dates by magnitude < texts < FALSE < TRUE)')
    ctx.floor(6, 'six comparisons')


def rule_2(ctx):
    """Type precedence on values: every number is smaller than every text, every text smaller than FALSE, FALSE smaller than TRUE;
    a date ranks as its serial number."""
    from xlsa.guards import World
    fm = ctx.mod('xlfunctions.func_xltypes')
    world = World()
    rows = [('Number < Text < Boolean', fm.cls('Text'), [
                (_N(1e300), _T(''), '__lt__', True), (_N(-5), _T('0'), '__lt__', True), (_N(7), _T('6'), '__gt__', False), (_B(False), _T('zzz'), '__gt__', True),
                (_B(False), _T('TRUE'), '__gt__', True), (_N(1e300), _B(False), '__lt__', True), (_B(True), _N(2), '__gt__', True), (_B(False), _B(True), '__lt__', True),
                (_N(1), _B(True), '__eq__', False), (_N(0), _B(False), '__eq__', False)]),
            ('dates rank as numbers', fm.cls('DateTime'), [
                (_D(1900, 3, 1), _N(61), '__eq__', True), (_D(1900, 3, 1), _N(60.5), '__gt__', True), (_D(2023, 3, 15), _N(45001), '__lt__', True),
                (_N(45000), _D(2023, 3, 15), '__ge__', True), (_D(2023, 3, 15), _T('a'), '__lt__', True), (_D(2023, 3, 15), _B(False), '__lt__', True),
                (_D(1900, 3, 1), _D(2023, 3, 15), '__lt__', True), (_D(2023, 3, 15), _D(2023, 3, 15), '__le__', True)])]
    for construct, anchor, table in rows:
        wrong = []
        for a, b, name, want in table:
            got = _cmp(ctx, world, a, b, name)
            if got is not want:
                wrong.append(f'{a.f["value"]!r} {_SYMS[name]} {b.f["value"]!r} gives {got!r}, expected {want}')
        ctx.expect(not wrong, anchor, construct, '; '.join(wrong[:4]))
    ctx.floor(2, 'precedence facts')


def rule_3(ctx):
    """A text on the left of a value of another class: the comparison is decided by type precedence (number < text < boolean), not
    by comparing text forms - per operator, on the real methods; texts among themselves compare case-insensitively (C09.6)."""
    from xlsa.guards import World
    fm = ctx.mod('xlfunctions.func_xltypes')
    anchor = fm.cls('Text')
    world = World()
    for name in CMP:
        wrong = []
        for label, other, rel in (('Number 5', _N(5), 1), ('Number 1', _N(1), 1), ('Boolean TRUE', _B(True), -1), ('Boolean FALSE', _B(False), -1)):
            for text in ('1', 'zz', 'True'):
                got = _cmp(ctx, world, _T(text), other, name)
                want = PYOPS[name](rel, 0)
                if got is not want:
                    wrong.append(f'Text {text!r} {_SYMS[name]} {label} gives {got!r}, expected {want!r}')
        ctx.expect(not wrong, anchor, f'Text.{name} is type-aware',
                   '; '.join(wrong[:3]) + ': a text compared with a number or boolean must be ordered by type (every number < every text < FALSE '
                   '< TRUE), not by comparing text forms; "1"<5 is TRUE while 5>"1" is FALSE')
    ctx.floor(6, 'text-left comparisons')


def rule_4(ctx):
    """A blank is the neutral value of its partner's class - equal to 0, to the empty text and to FALSE, not larger than any date -
    in both operand positions, and two blanks are equal: on the real methods (Blank._sort_key, the __Blank__ conversions)."""
    from xlsa.guards import World
    fm = ctx.mod('xlfunctions.func_xltypes')
    world = World()
    table = {
        'Number': [(_N(0), '__eq__', True), (_N(0), '__ne__', False), (_N(1), '__eq__', False), (_N(1), '__gt__', True), (_N(-1), '__lt__', True), (_N(0), '__le__', True)],
        'Text': [(_T(''), '__eq__', True), (_T('a'), '__eq__', False), (_T('a'), '__gt__', True), (_T(''), '__ge__', True)],
        'Boolean': [(_B(False), '__eq__', True), (_B(True), '__eq__', False), (_B(True), '__gt__', True), (_B(False), '__le__', True)],
        'DateTime': [(_D(1900, 3, 1), '__gt__', True), (_D(1900, 3, 1), '__eq__', False), (_D(2023, 3, 15), '__ge__', True)],
    }
    mirror = {'__lt__': '__gt__', '__gt__': '__lt__', '__le__': '__ge__', '__ge__': '__le__', '__eq__': '__eq__', '__ne__': '__ne__'}
    for cname, rows in table.items():
        wrong = []
        for val, name, want in rows:
            positions = [(val, _BL(), name)]
            if cname != 'Text':
                positions.append((_BL(), val, mirror[name]))        # a text on the right of a blank is fine; on the left it is C09.3's
            else:
                positions.append((_BL(), val, mirror[name]))
            for a, b, nm in positions:
                got = _cmp(ctx, world, a, b, nm)
                if got is not want:
                    wrong.append(f'{a.f["value"]!r} {_SYMS[nm]} {b.f["value"]!r} gives {got!r}, expected {want}')
        ctx.expect(not wrong, fm.cls(cname), f'{cname}.__Blank__ yields the neutral {cname}',
                   '; '.join(wrong[:3]) + f': a blank compared with a {cname} must behave as the neutral value of that class')
    got = [_cmp(ctx, world, _BL(), _BL(), nm) for nm in ('__eq__', '__le__', '__ge__', '__ne__', '__lt__')]
    ctx.expect(got == [True, True, True, False, False], fm.cls('Blank'), 'Blank._sort_key has a base case for Blank vs Blank',
               f'two blanks compare as {got} for =, <=, >=, <>, <: two empty cells are equal (and the comparison must terminate)')
    ctx.floor(5, 'blank conversions')


def rule_5(ctx):
    """The six comparison operators as the evaluator calls them (the registered objects: wrappers, private decorators, bodies as
    written) on every ordered pair of representative non-blank values: each computes its own relation of the one total order with
    the operands in written order. (Text-left / non-text-right pairs are the known finding of C09.3.)"""
    import operator as op_
    from . import values as V
    vals = [('-1', V.num(-1), (0, -1)), ('2.5', V.num(2.5), (0, 2.5)), ('7', V.num(7), (0, 7)), ('"a"', V.text('a'), (1, 'A')),
            ('"A"', V.text('A'), (1, 'A')), ('"b"', V.text('b'), (1, 'B')), ('"10"', V.text('10'), (1, '10')),
            ('FALSE', V.boolean(False), (2, 0)), ('TRUE', V.boolean(True), (2, 1))]
    table = {'OP_EQ': op_.eq, 'OP_NE': op_.ne, 'OP_LT': op_.lt, 'OP_LE': op_.le, 'OP_GT': op_.gt, 'OP_GE': op_.ge}
    for name, fn in table.items():
        f = V.registered(ctx, name)
        wrong = []
        for la, a, ka in vals:
            for lb, b, kb in vals:
                if ka[0] == 1 and kb[0] != 1:
                    continue
                out = V.call(ctx, name, [a, b])
                got = V.norm(out.value) if out.end == 'return' else (out.end, V.norm(out.value))
                val = got[1] if isinstance(got, tuple) and len(got) == 2 and got[0] == 'Boolean' else got
                want = fn(ka, kb)
                if val is not want:
                    wrong.append(f'{la} {name[3:]} {lb} = {got!r} instead of {want}')
        ctx.expect(not wrong, f.node, f'{name} applies its own operator to (left, right)',
                   f'{name} does not compute its relation of the total order (numbers < texts < FALSE < TRUE, texts case-insensitively) with the '
                   'operands in written order: ' + '; '.join(wrong[:4]))
    ctx.floor(6, 'six wrappers')


def rule_6(ctx):
    """The whole comparison table on representative values of every class, evaluated on the real comparison methods (dunder
    dispatch, casts, blank conversion) by constant propagation, against ONE total order: numbers < texts (case-insensitive) <
    FALSE < TRUE, a blank standing for 0 / "" / FALSE of its partner. Pairs with a text on the left and a non-text on the right
    are the known finding of C09.3 (Text overrides are not type-aware) and are left to that rule."""
    import operator as op_
    from xlsa.guards import World
    fm = ctx.mod('xlfunctions.func_xltypes')
    anchor = fm.cls('ExcelType')

    def N(v):
        return Rec(cls=XLT + 'Number', value=v)

    def T(v):
        return Rec(cls=XLT + 'Text', value=v)

    def B(v):
        return Rec(cls=XLT + 'Boolean', value=v)
    vals = [('-1', N(-1)), ('0', N(0)), ('2.5', N(2.5)), ('0.1+0.2', N(0.1 + 0.2)), ('0.3', N(0.3)),
            ('""', T('')), ('"a"', T('a')), ('"A"', T('A')), ('"B"', T('B')), ('"1"', T('1')),
            ('"10"', T('10')), ('"9"', T('9')), ('"1.0"', T('1.0')), ('"007"', T('007')), ('"7"', T('7')), ('"1a"', T('1a')), ('"1e1"', T('1e1')),
            ('"ab"', T('ab')), ('"true"', T('true')),
            ('FALSE', B(False)), ('TRUE', B(True)), ('blank', Rec(cls=XLT + 'Blank', value=None)),
            # dates count as their serials - on both sides of the day Excel invented (serial 60)
            ('1900-01-01', _D(1900, 1, 1)), ('1900-02-28', _D(1900, 2, 28)), ('1900-03-01', _D(1900, 3, 1)), ('2000-01-01', _D(2000, 1, 1)),
            ('1', N(1)), ('59', N(59)), ('59.5', N(59.5)), ('60', N(60)), ('61', N(61)), ('36526', N(36526))]
    serials = {'1900-01-01': 1, '1900-02-28': 59, '1900-03-01': 61, '2000-01-01': 36526}
    numeric_looking = {'"10"', '"9"', '"1.0"', '"007"', '"7"', '"1a"', '"1e1"', '"ab"', '"true"'}
    kind = {lbl: v.f['cls'].rpartition(':')[2] for lbl, v in vals}
    byl = dict(vals)

    def key(lbl, other):
        if kind[lbl] == 'Blank':
            return {'Blank': (0, 0), 'Number': (0, 0), 'Text': (1, ''), 'Boolean': (2, 0)}[kind[other]]
        if kind[lbl] == 'DateTime':
            return (0, serials[lbl])
        v = byl[lbl].f['value']
        if kind[lbl] == 'Number':
            return (0, v)
        if kind[lbl] == 'Text':
            return (1, v.upper())
        return (2, int(v))
    ops = {'<': op_.lt, '<=': op_.le, '=': op_.eq, '<>': op_.ne, '>': op_.gt, '>=': op_.ge}
    py = {'<': '<', '<=': '<=', '=': '==', '<>': '!=', '>': '>', '>=': '>='}
    world = World()
    n = 0
    for la, a in vals:
        for lb, b in vals:
            if kind[la] == 'Text' and kind[lb] != 'Text':
                continue
            if 'Blank' in (kind[la], kind[lb]) and 'DateTime' in (kind[la], kind[lb]):
                continue        # DateTime.__Blank__: the known finding of C09.4
            if (la in numeric_looking or lb in numeric_looking) and not (kind[la] == 'Text' and kind[lb] == 'Text'):
                continue        # the further texts are compared with texts (their place among the other classes is decided by "1", "a")
            for sym, fn in ops.items():
                want = fn(key(la, lb), key(lb, la))
                it = Interp(ctx.a, fm, {'a': a, 'b': b}, inline_pkg=True, world=world)
                out = it.run([ast.parse(f'return a {py[sym]} b').body[0]])
                if out.end == 'return' and isinstance(out.value, Rec) and out.value.f.get('cls') == XLT + 'Boolean':
                    got = out.value.f.get('value')
                elif out.end == 'return' and isinstance(out.value, bool):
                    got = out.value
                else:
                    got = f'<{out.end} {out.value!r}>'
                n += 1
                ctx.expect(got == want, anchor, f'{la} {sym} {lb}',
                           f'the comparison {la} {sym} {lb} gives {got!r}, expected {want!r} under the one total order (numbers < texts < FALSE < TRUE, '
                           'texts case-insensitive, a blank is the 0 / "" / FALSE of its partner): exactly one of <, =, > may hold and <=, >=, <> '
                           'must follow from them')
    # texts whose case forms differ in length or are not ASCII: whatever folding the library uses, the six operators agree on it
    odd = ['straße', 'STRASSE', 'ß', 'ss', 'SS', 'ﬁn', 'FIN', 'fin', 'é', 'É', 'e', 'a', 'Z', 'ǰ', 'J̌', 'İ', 'i', 'ı', 'ŉ', 'ʼN', 'Ω', 'ω', 'ς', 'σ', 'Σ']

    def rel(a, b, sym):
        it = Interp(ctx.a, fm, {'a': T(a), 'b': T(b)}, inline_pkg=True, world=world)
        out = it.run([ast.parse(f'return a {py[sym]} b').body[0]])
        if out.end == 'return' and isinstance(out.value, Rec) and out.value.f.get('cls') == XLT + 'Boolean':
            return out.value.f.get('value')
        return out.value if out.end == 'return' and isinstance(out.value, bool) else f'<{out.end} {out.value!r}>'
    for i, a in enumerate(odd):
        for b in odd[i:]:
            r = {sym: rel(a, b, sym) for sym in ops}
            back = {sym: rel(b, a, sym) for sym in ('<', '>', '=')}
            laws = [('exactly one of <, =, > is TRUE', [r['<'], r['='], r['>']].count(True) == 1 and all(isinstance(x, bool) for x in r.values())),
                    ('<= is (< or =)', r['<='] == (r['<'] or r['='])), ('>= is (> or =)', r['>='] == (r['>'] or r['='])), ('<> is not =', r['<>'] == (not r['='])),
                    ('a<b is b>a', r['<'] == back['>'] and r['>'] == back['<']), ('a=b is b=a', r['='] == back['=']),
                    ('texts that differ only in case are equal', r['='] is True or a.upper() != b.upper() or a.lower() != b.lower())]
            broken = [name for name, ok in laws if not ok]
            n += 1
            ctx.expect(not broken, anchor, f'order laws on the texts {a!r} and {b!r}',
                       f'on the texts {a!r} and {b!r} the operators give {r} (reversed: {back}); broken: {"; ".join(broken)} - the six operators are views of one total order')
    ctx.floor(2500, 'comparison rows')


def rule_8(ctx):
    """The ordered comparisons as library calls on native Python arguments, all in ONE process (one world, the calls one after
    the other, forwards and backwards): a native value is the value of its own type - True is a boolean, 1.0 a number - whatever
    was compared before. (= and <> on native arguments and a text on the left of a non-text are the known findings of C09.3 /
    C09.5's sibling rule and are left to them.)"""
    import operator as op_
    from . import values as V
    from xlsa.guards import World
    natives = [('True', True, (2, 1)), ('1.0', 1.0, (0, 1.0)), ('1', 1, (0, 1)), ('False', False, (2, 0)), ('0.0', 0.0, (0, 0.0)), ('0', 0, (0, 0)),
               ('2.5', 2.5, (0, 2.5)), ("'abc'", 'abc', (1, 'ABC')), ("'ABD'", 'ABD', (1, 'ABD')), ("''", '', (1, ''))]
    table = {'OP_LT': op_.lt, 'OP_LE': op_.le, 'OP_GT': op_.gt, 'OP_GE': op_.ge}
    calls = [(name, fn, a, b) for name, fn in table.items() for a in natives for b in natives if not (a[2][0] == 1 and b[2][0] != 1)]
    if ctx.tier == 'quick':
        calls = calls[::2] + calls[1::6]
    n = 0
    for oname, order in (('forwards', calls), ('backwards', list(reversed(calls)))):
        world = World()
        wrong = {}
        for name, fn, (la, a, ka), (lb, b, kb) in order:
            out = V.call(ctx, name, [a, b], world=world)
            got = V.norm(out.value) if out.end == 'return' else (out.end, V.norm(out.value))
            val = got[1] if isinstance(got, tuple) and len(got) == 2 and got[0] == 'Boolean' else got
            n += 1
            if val is not fn(ka, kb):
                wrong.setdefault(name, []).append(f'{name}({la}, {lb}) = {got!r} instead of {fn(ka, kb)}')
        for name in table:
            f = V.registered(ctx, name)
            ctx.expect(name not in wrong, f.node, f'{name} on native arguments, calls made {oname} in one process',
                       f'{"; ".join(wrong.get(name, [])[:4])}: a native argument is the value of its own Python type (True a boolean, 1.0 a number) '
                       'whatever was compared earlier in the process')
    # the same calls written with keyword arguments, in either order: left is left
    for name, fn in table.items():
        f = V.registered(ctx, name)
        wrong = []
        for (la, a, ka), (lb, b, kb) in ((natives[2], natives[6]), (natives[6], natives[2]), (natives[0], natives[1]), (natives[1], natives[0]), (natives[5], natives[7]),
                                         (natives[3], natives[4]), (natives[8], natives[7])):
            for form, args, kw in (('right=, left=', [], {'right': b, 'left': a}), ('left=, right=', [], {'left': a, 'right': b}), ('left by position, right=', [a], {'right': b})):
                out = V.call(ctx, name, args, kwargs=kw)
                got = V.norm(out.value) if out.end == 'return' else (out.end, V.norm(out.value))
                val = got[1] if isinstance(got, tuple) and len(got) == 2 and got[0] == 'Boolean' else got
                n += 1
                if val is not fn(ka, kb):
                    wrong.append(f'{name}({form}: left {la}, right {lb}) = {got!r} instead of {fn(ka, kb)}')
        ctx.expect(not wrong, f.node, f'{name} called with keyword arguments', '; '.join(wrong[:4]) + ': an argument given as left= is the left operand wherever it is written')
    # = and <> between a value instance (number, boolean) and a native value of the other kind, in both positions
    eq = {'OP_EQ': op_.eq, 'OP_NE': op_.ne}
    mixed = [('Number 1', V.num(1), (0, 1)), ('Number 0', V.num(0), (0, 0)), ('Boolean TRUE', V.boolean(True), (2, 1)), ('Boolean FALSE', V.boolean(False), (2, 0)),
             ('Number 2.5', V.num(2.5), (0, 2.5))]
    plain = [('True', True, (2, 1)), ('False', False, (2, 0)), ('1', 1, (0, 1)), ('0', 0, (0, 0)), ('2.5', 2.5, (0, 2.5)), ('1.0', 1.0, (0, 1.0))]
    for name, fn in eq.items():
        f = V.registered(ctx, name)
        wrong = []
        for lw, w, kw_ in mixed:
            for lp, p_, kp in plain:
                for la, a, ka, lb, b, kb in ((lw, w, kw_, lp, p_, kp), (lp, p_, kp, lw, w, kw_)):
                    out = V.call(ctx, name, [a, b])
                    got = V.norm(out.value) if out.end == 'return' else (out.end, V.norm(out.value))
                    val = got[1] if isinstance(got, tuple) and len(got) == 2 and got[0] == 'Boolean' else got
                    n += 1
                    if val is not fn(ka, kb):
                        wrong.append(f'{name}({la}, {lb}) = {got!r} instead of {fn(ka, kb)}')
        ctx.expect(not wrong, f.node, f'{name} between a value instance and a native value', '; '.join(wrong[:4])
                   + ': a native True is a boolean and a native 1 a number, whichever side carries the value instance')
    ctx.floor(14, 'four ordered comparisons x two call orders, keyword forms, = and <> on mixed operands')
    ctx.note(f'{n} calls')


def rule_7(ctx):
    """The operands of a comparison are what the cells hold: a constant cell evaluates to the value class of its content."""
    from . import corelemma
    n = corelemma.rule_constant_cells(ctx)
    ctx.floor(n, 'constant cell kinds')


RULES = [
    ('C09.1', 'the six base comparisons agree', rule_1),
    ('C09.2', 'type precedence', rule_2),
    ('C09.3', 'overrides are complete and type-aware', rule_3),
    ('C09.4', 'blank conversions are total and terminate', rule_4),
    ('C09.5', 'comparison wrappers', rule_5),
    ('C09.6', 'pairwise comparison table over representative values of every class', rule_6),
    ('C09.7', 'constant cells evaluate to the value class of their content ("" is a text, not a blank)', rule_7),
    ('C09.8', 'ordered comparisons on native arguments in one process, in both call orders', rule_8),
]
