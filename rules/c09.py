"""C09 - comparison operators implement one total order on values (structural part)."""
import ast

from xlsa import Unmodelled, AnchorMissing
from xlsa.consteval import Ref, Obj, Unfoldable
from xlsa.guards import Interp, Rec, PyModel, Opaque
from xlsa.load import walk_local, names_in, dotted
from xlsa import flow
from .common import func_params, value_returns, last_return, XLERR, XLT, PY_CMPOP

PROPERTY = 'C09'
EXPLANATION = (
    'Decided from source: (C09.1) the six rich comparisons of the base value class apply their own Python operator '
    'to the same pair of keys after normalising the other operand; (C09.2) type precedence Number(=DateTime as '
    'serial) < Text < Boolean, FALSE < TRUE; (C09.3) a class that overrides a rich comparison overrides all six and '
    'defers to the precedence mechanism for an operand of another class (known finding F17 for Text); (C09.4) blank '
    'conversions: every concrete class returns a non-blank value of its own kind, Blank against Blank has a base '
    'case; (C09.5) the six OP_* operators as the evaluator calls them (registered objects: wrappers, private '
    'decorators, bodies as written) on every ordered pair of representative non-blank values compute their own '
    'relation of the one total order with the operands in written order; (C09.6) the whole comparison table - 13 '
    'representative values of all classes x 13 x six operators - on the real comparison methods against one total '
    'order, except text-left/non-text-right pairs (F17); (C09.7) constant cells evaluate to the value class of '
    'their content ("" is a text, None a blank).'
    ' (C09.6) 22 representative values incl. numeric-looking texts; (C09.8) the ordered comparisons as library calls on native arguments made one after the other in one process, forwards and backwards (functools.lru_cache is modelled as a real memo keyed by hash and equality).')
NOT_DECIDED = 'trichotomy / transitivity over concrete strings and floats'
TRUSTED = ['tuple comparison semantics of Python for the (precedence, value) keys', 'functools.lru_cache keyed by hash/equality of the arguments (True == 1 == 1.0 unless typed)']

CMP = {'__lt__': ast.Lt, '__le__': ast.LtE, '__eq__': ast.Eq, '__ne__': ast.NotEq, '__gt__': ast.Gt, '__ge__': ast.GtE}
WRAPPERS = {'OP_EQ': ast.Eq, 'OP_NE': ast.NotEq, 'OP_GT': ast.Gt, 'OP_LT': ast.Lt, 'OP_GE': ast.GtE, 'OP_LE': ast.LtE}
MIRROR = {'OP_GT': 'OP_LT', 'OP_LT': 'OP_GT', 'OP_GE': 'OP_LE', 'OP_LE': 'OP_GE', 'OP_EQ': 'OP_EQ', 'OP_NE': 'OP_NE'}


def _cmp_in_return(fn):
    r = last_return(fn)
    if r is None:
        return None
    cmps = [c for c in ast.walk(r.value) if isinstance(c, ast.Compare)]
    return cmps[0] if len(cmps) == 1 else None


class _Val(PyModel):
    """Abstract operand: a value class, a sort key, a text form."""

    def __init__(self, cls, key=None, text='', value=None):
        self.cls = cls
        self._key = key
        self._text = text
        self.value = value if value is not None else text
        self.sort_precedence = key[0] if key else 0
        self.calls = []

    def _sort_key(self, other):
        self.calls.append('_sort_key')
        return self._key

    def __str__(self):
        return self._text

    def __Blank__(self):
        self.calls.append('__Blank__')
        return self


def _isinst(ctx):
    def isinst(val, refs):
        refs = refs if isinstance(refs, tuple) else (refs,)
        cls = getattr(val, 'cls', None) if isinstance(val, PyModel) else (val.get('cls') if isinstance(val, Rec) and 'cls' in val.f else None)
        return bool(cls) and any(r and ctx.res.is_subclass(cls, r) for r in refs)
    return isinst


def _models():
    import operator as op
    m = {f'ext:operator.{n}': getattr(op, n) for n in ('lt', 'le', 'eq', 'ne', 'gt', 'ge')}
    m[XLT + 'ExcelType.cast_from_native'] = lambda v: v
    return m


def _bool_result(out):
    """Truth value carried by the returned Boolean(...) (or a plain bool)."""
    v = out.value
    if out.end != 'return':
        return f'<{out.end} {out.value!r}>'
    if isinstance(v, Rec) and 'cls' in v.f and v.get('cls') == XLT + 'Boolean':
        a = v.get('args')
        return a[0] if a else None
    return v


PYOPS = {'__lt__': lambda a, b: a < b, '__le__': lambda a, b: a <= b, '__eq__': lambda a, b: a == b,
         '__ne__': lambda a, b: a != b, '__gt__': lambda a, b: a > b, '__ge__': lambda a, b: a >= b}


def rule_1(ctx):
    """Decision table of the six base comparisons over the three orderings of two sort keys."""
    fm = ctx.mod('xlfunctions.func_xltypes')
    N = XLT + 'Number'
    for name in CMP:
        fn = fm.func(f'ExcelType.{name}')
        p = func_params(fn)
        wrong = []
        for ka, kb in (((0, 1), (0, 2)), ((0, 2), (0, 1)), ((0, 1), (0, 1)), ((0, 5), (1, 'a')), ((2, 0), (1, 'z'))):
            a, b = _Val(N, ka), _Val(N, kb)
            it = Interp(ctx.a, fm, {p[0]: a, p[1]: b}, isinstance_fn=_isinst(ctx), call_models=_models(),
                        self_class=XLT + 'ExcelType', scope_fn=fn)
            try:
                out = it.run(fn.body)
            except Unmodelled as exc:
                raise Unmodelled(f'ExcelType.{name}: {exc}')
            got = _bool_result(out)
            want = PYOPS[name](ka, kb)
            if got is not want and got != want:
                wrong.append((ka, kb, got, want))
            if a.calls.count('_sort_key') != 1 or b.calls.count('_sort_key') != 1:
                wrong.append(('keys', a.calls, b.calls, 'each operand asked for its key once'))
        ctx.expect(not wrong, fn, f'ExcelType.{name}',
                   f'{name} on operands with sort keys {wrong[0][0]} and {wrong[0][1]} gives {wrong[0][2]!r}, expected {wrong[0][3]!r}: the six '
                   'comparisons must apply their own operator to (key of self, key of other)' if wrong else '')
        norm = [c for c in flow.calls_in(ctx.inl(fn)) if ctx.res.resolve(c.func, fm) == XLT + 'ExcelType.cast_from_native']
        ctx.expect(len(norm) >= 1, fn, f'ExcelType.{name} normalises the other operand',
                   f'{name} does not convert a native other operand with cast_from_native first')
    ctx.floor(12, 'six comparisons x (decision table, normalisation)')


def rule_2(ctx):
    fm = ctx.mod('xlfunctions.func_xltypes')
    prec = {}
    for c in ('ExcelType', 'Number', 'Text', 'Boolean', 'DateTime', 'Blank'):
        cm, val = ctx.res.class_attr(XLT + c, 'sort_precedence')
        prec[c] = ctx.fold(val, cm)
    ctx.expect(prec['Number'] < prec['Text'] < prec['Boolean'], fm.cls('Text'), 'Number < Text < Boolean',
               f'type precedence is Number={prec["Number"]}, Text={prec["Text"]}, Boolean={prec["Boolean"]}: every number must be '
               'smaller than every text and every text smaller than FALSE')
    ctx.expect(prec['DateTime'] == prec['Number'], fm.cls('DateTime'), 'dates rank as numbers',
               'DateTime does not share the precedence of Number')
    # base key = (precedence, value)
    base = fm.func('ExcelType._sort_key')
    r = last_return(base)
    ok = r is not None and isinstance(r.value, ast.Tuple) and len(r.value.elts) == 2 \
        and ast.unparse(r.value.elts[0]) == 'self.sort_precedence' and ast.unparse(r.value.elts[1]) == 'self.value'
    ctx.expect(ok, base, 'base key = (precedence, value)', 'the base sort key is not (sort_precedence, value)')
    bk = fm.func('Boolean._sort_key')
    r = last_return(bk)
    ok = r is not None and isinstance(r.value, ast.Tuple) and ast.unparse(r.value.elts[0]) == 'self.sort_precedence' \
        and ast.unparse(r.value.elts[1]) in ('int(self.value)', 'self.value')
    ctx.expect(ok, bk, 'Boolean key = (precedence, FALSE<TRUE)', 'Boolean sort key does not order FALSE before TRUE within its class')
    dk = fm.func('DateTime._sort_key')
    r = last_return(dk)
    ok = r is not None and '__Number__()' in ast.unparse(r.value) and '_sort_key' in ast.unparse(r.value)
    ctx.expect(ok, dk, 'DateTime key = key of its serial number', 'a date is not compared as its serial number')
    # Text keeps its case out of the base key? Text has no _sort_key override: text-vs-text goes through its overrides (C09.3)
    ctx.floor(5, 'precedence facts')


def _type_aware(ctx, fn, m):
    """Does the override defer to the precedence mechanism when `other` is of another class?"""
    p = func_params(fn)
    other = p[1]
    c = _cmp_in_return(fn)
    if c is None:
        return False, 'no single comparison in the returned value'
    txt = ast.unparse(fn)
    if '_sort_key' in txt or 'sort_precedence' in txt or 'super()' in txt:
        return True, ''
    # an isinstance/type test on `other` that dominates the value comparison and covers "not my class"
    conds = flow.path_conditions(c)
    for cd in conds:
        for x in ast.walk(cd.test):
            if isinstance(x, ast.Call) and isinstance(x.func, ast.Name) and x.func.id == 'isinstance' \
                    and isinstance(x.args[0], ast.Name) and x.args[0].id == other:
                cls = ctx.res.resolve(x.args[1], m) if not isinstance(x.args[1], ast.Tuple) else None
                own = f'pkg:{m.name}:{fn._qual.rsplit(".", 1)[0]}'
                if cls == own and cd.polarity:
                    return True, ''
                if cls == own and cd.kind == 'guard' and not cd.polarity:
                    # `if not isinstance(other, Text): return <deferred>` pattern
                    return True, ''
    return False, (f'compares `{ast.unparse(c)[:60]}` whatever the class of `{other}` is: a number/boolean operand is '
                   'compared as text instead of by type precedence')


def _overrides(ctx):
    fm = ctx.mod('xlfunctions.func_xltypes')
    out = {}
    for qual, cnode in fm.classes.items():
        ref = XLT + qual
        if qual == 'ExcelType' or not ctx.res.is_subclass(ref, XLT + 'ExcelType'):
            continue
        own = [s.name for s in cnode.body if isinstance(s, ast.FunctionDef) and s.name in CMP]
        if own:
            out[qual] = own
    return fm, out


def asymmetric_overrides(ctx):
    """True when some class overrides comparisons without type-awareness (then a > b <=> b < a cannot be assumed)."""
    fm, ov = _overrides(ctx)
    for qual, names in ov.items():
        for name in names:
            ok, _ = _type_aware(ctx, fm.func(f'{qual}.{name}'), fm)
            if not ok:
                return True
    return False


def _run_override(ctx, fm, qual, name, selfv, other):
    fn = fm.func(f'{qual}.{name}')
    p = func_params(fn)
    it = Interp(ctx.a, fm, {p[0]: selfv, p[1]: other}, isinstance_fn=_isinst(ctx), call_models=_models(),
                self_class=XLT + qual, scope_fn=fn)
    return _bool_result(it.run(fn.body)), fn


def rule_3(ctx):
    """Overrides of the rich comparisons: complete, case-insensitive among texts, and ordered by type precedence against
    operands of another class (decision tables on abstract operands)."""
    fm, ov = _overrides(ctx)
    T, N, B = XLT + 'Text', XLT + 'Number', XLT + 'Boolean'
    for qual, names in sorted(ov.items()):
        missing = sorted(set(CMP) - set(names))
        ctx.expect(not missing, fm.cls(qual), f'{qual} overrides all six comparisons or none',
                   f'{qual} overrides {sorted(names)} but not {missing}: the overridden and the inherited comparisons use '
                   'different notions of equality/order, so a=b, a<b, a>b are no longer mutually exclusive')
        for name in names:
            fn = fm.func(f'{qual}.{name}')
            if qual != 'Text':
                # an override in another class: it must still agree with the key order on same-class operands
                aware, why = _type_aware(ctx, fn, fm)
                ctx.expect(aware, fn, f'{qual}.{name} is type-aware', f'{qual}.{name} {why}')
                c = _cmp_in_return(fn)
                ctx.expect(c is not None and type(c.ops[0]) is CMP[name], fn, f'{qual}.{name} applies its own operator',
                           f'{qual}.{name} does not apply {CMP[name].__name__} to its operands')
                continue
            # texts among themselves: case-insensitive order
            wrong = []
            try:
                for a, b in (('a', 'B'), ('B', 'a'), ('a', 'A'), ('abc', 'ABD'), ('', 'a')):
                    got, _ = _run_override(ctx, fm, qual, name, Rec(cls=T, value=a), _Val(T, (1, b), b))
                    want = PYOPS[name](a.lower(), b.lower())
                    if got != want:
                        wrong.append((a, b, got, want))
            except Unmodelled as exc:
                ctx.unmodelled(fn, f'{qual}.{name} on text operands: {exc}')
                continue
            ctx.expect(not wrong, fn, f'{qual}.{name} folds case on both sides alike',
                       f'Text {wrong[0][0]!r} {name} Text {wrong[0][1]!r} gives {wrong[0][2]!r}, expected {wrong[0][3]!r} '
                       '(texts compare case-insensitively)' if wrong else '')
            # against another class: type precedence decides (number < text < boolean)
            wrong = []
            try:
                for label, other, rel in (('Number 5', _Val(N, (0, 5), '5'), 1), ('Number 1', _Val(N, (0, 1), '1'), 1),
                                          ('Boolean TRUE', _Val(B, (2, 1), 'True'), -1), ('Boolean FALSE', _Val(B, (2, 0), 'False'), -1)):
                    for text in ('1', 'zz', 'True'):
                        got, _ = _run_override(ctx, fm, qual, name, Rec(cls=T, value=text), other)
                        want = PYOPS[name](rel, 0)
                        if got != want:
                            wrong.append((text, label, got, want))
            except Unmodelled as exc:
                ctx.unmodelled(fn, f'{qual}.{name} against another class: {exc}')
                continue
            ctx.expect(not wrong, fn, f'{qual}.{name} is type-aware',
                       f'Text {wrong[0][0]!r} {name} {wrong[0][1]} gives {wrong[0][2]!r}, expected {wrong[0][3]!r}: the override compares text '
                       'forms whatever the class of the other operand is, instead of ordering by type (every number < every text < FALSE < TRUE); '
                       '"1"<5 is TRUE while 5>"1" is FALSE' if wrong else '')
    ctx.floor(10, 'override sets')


def rule_4(ctx):
    fm = ctx.mod('xlfunctions.func_xltypes')
    want = {'Number': 'Number', 'Text': 'Text', 'Boolean': 'Boolean', 'DateTime': None}
    for c in ('Number', 'Text', 'Boolean', 'DateTime'):
        cm, fn = ctx.res.class_attr(XLT + c, '__Blank__')
        r = last_return(fn) if isinstance(fn, ast.FunctionDef) else None
        ok = False
        why = f'{c}.__Blank__ missing'
        if r is not None:
            v = r.value
            if isinstance(v, ast.Constant) and v.value is None:
                why = (f'{c}.__Blank__ returns None: comparing a blank with a {c} calls None._sort_key and raises '
                       'AttributeError')
            elif isinstance(v, ast.Call):
                tgt = ast.unparse(v.func)
                ok = tgt in ('self.__class__', c, 'Number') and len(v.args) == 1
                why = f'{c}.__Blank__ returns `{ast.unparse(v)}`'
                if ok and isinstance(v.args[0], ast.Constant):
                    neutral = {'Number': 0, 'Text': '', 'Boolean': False, 'DateTime': 0}[c]
                    ok = v.args[0].value == neutral and type(v.args[0].value) is type(neutral)
                    why = f'blank equivalent of {c} is {v.args[0].value!r}, expected {neutral!r}'
        ctx.expect(ok, fn if fn is not None else fm.cls(c), f'{c}.__Blank__ yields the neutral {c}', why)
    # Blank vs Blank terminates: Blank._sort_key must not ask a Blank other for its blank equivalent
    bk = fm.func('Blank._sort_key')
    p = func_params(bk)
    other = _Val(XLT + 'Blank', (0, 0), '')
    it = Interp(ctx.a, fm, {p[0]: Rec(cls=XLT + 'Blank', value=None), p[1]: other}, isinstance_fn=_isinst(ctx),
                call_models=_models(), self_class=XLT + 'Blank', scope_fn=bk)
    try:
        out = it.run(bk.body)
        asked = '__Blank__' in other.calls
    except Unmodelled as exc:
        raise Unmodelled(f'Blank._sort_key: {exc}')
    ctx.expect(not asked and out.end == 'return', bk, 'Blank._sort_key has a base case for Blank vs Blank',
               'Blank._sort_key asks the other operand for its blank equivalent even when the other operand is a Blank: '
               'the two call each other until RecursionError (=A1=B1 on two empty cells)')
    other = _Val(XLT + 'Number', (0, 7), '7')
    it = Interp(ctx.a, fm, {p[0]: Rec(cls=XLT + 'Blank', value=None), p[1]: other}, isinstance_fn=_isinst(ctx),
                call_models=_models(), self_class=XLT + 'Blank', scope_fn=bk)
    out = it.run(bk.body)
    ctx.expect('__Blank__' in other.calls and out.end == 'return', bk, 'Blank takes the blank equivalent of a non-blank operand',
               'a blank compared with a non-blank value no longer converts to the blank equivalent of that value\'s class')
    # the base case compares as equal numbers: key independent of `other`
    ctx.floor(5, 'blank conversions')


def rule_5(ctx):
    """The six comparison operators as the evaluator calls them (the registered objects: wrappers, private decorators, bodies as
    written) on every ordered pair of representative non-blank values: each computes its own relation of the one total order with
    the operands in written order. (Text-left / non-text-right pairs are the known finding of C09.3.)"""
    import operator as op_
    from . import values as V
    vals = [('-1', V.num(-1), (0, -1)), ('2.5', V.num(2.5), (0, 2.5)), ('7', V.num(7), (0, 7)), ('"a"', V.text('a'), (1, 'A')),
            ('"A"', V.text('A'), (1, 'A')), ('"b"', V.text('b'), (1, 'B')), ('"10"', V.text('10'), (1, '10')),
            ('FALSE', V.boolean(False), (2, 0)), ('TRUE', V.boolean(True), (2, 1))]
    table = {'OP_EQ': op_.eq, 'OP_NE': op_.ne, 'OP_LT': op_.lt, 'OP_LE': op_.le, 'OP_GT': op_.gt, 'OP_GE': op_.ge}
    for name, fn in table.items():
        f = V.registered(ctx, name)
        wrong = []
        for la, a, ka in vals:
            for lb, b, kb in vals:
                if ka[0] == 1 and kb[0] != 1:
                    continue
                out = V.call(ctx, name, [a, b])
                got = V.norm(out.value) if out.end == 'return' else (out.end, V.norm(out.value))
                val = got[1] if isinstance(got, tuple) and len(got) == 2 and got[0] == 'Boolean' else got
                want = fn(ka, kb)
                if val is not want:
                    wrong.append(f'{la} {name[3:]} {lb} = {got!r} instead of {want}')
        ctx.expect(not wrong, f.node, f'{name} applies its own operator to (left, right)',
                   f'{name} does not compute its relation of the total order (numbers < texts < FALSE < TRUE, texts case-insensitively) with the '
                   'operands in written order: ' + '; '.join(wrong[:4]))
    ctx.floor(6, 'six wrappers')


def rule_6(ctx):
    """The whole comparison table on representative values of every class, evaluated on the real comparison methods (dunder
    dispatch, casts, blank conversion) by constant propagation, against ONE total order: numbers < texts (case-insensitive) <
    FALSE < TRUE, a blank standing for 0 / "" / FALSE of its partner. Pairs with a text on the left and a non-text on the right
    are the known finding of C09.3 (Text overrides are not type-aware) and are left to that rule."""
    import operator as op_
    from xlsa.guards import World
    fm = ctx.mod('xlfunctions.func_xltypes')
    anchor = fm.cls('ExcelType')

    def N(v):
        return Rec(cls=XLT + 'Number', value=v)

    def T(v):
        return Rec(cls=XLT + 'Text', value=v)

    def B(v):
        return Rec(cls=XLT + 'Boolean', value=v)
    vals = [('-1', N(-1)), ('0', N(0)), ('2.5', N(2.5)), ('0.1+0.2', N(0.1 + 0.2)), ('0.3', N(0.3)),
            ('""', T('')), ('"a"', T('a')), ('"A"', T('A')), ('"B"', T('B')), ('"1"', T('1')),
            ('"10"', T('10')), ('"9"', T('9')), ('"1.0"', T('1.0')), ('"007"', T('007')), ('"7"', T('7')), ('"1a"', T('1a')), ('"1e1"', T('1e1')),
            ('"ab"', T('ab')), ('"true"', T('true')),
            ('FALSE', B(False)), ('TRUE', B(True)), ('blank', Rec(cls=XLT + 'Blank', value=None))]
    numeric_looking = {'"10"', '"9"', '"1.0"', '"007"', '"7"', '"1a"', '"1e1"', '"ab"', '"true"'}
    kind = {lbl: v.f['cls'].rpartition(':')[2] for lbl, v in vals}
    byl = dict(vals)

    def key(lbl, other):
        if kind[lbl] == 'Blank':
            return {'Blank': (0, 0), 'Number': (0, 0), 'Text': (1, ''), 'Boolean': (2, 0)}[kind[other]]
        v = byl[lbl].f['value']
        if kind[lbl] == 'Number':
            return (0, v)
        if kind[lbl] == 'Text':
            return (1, v.upper())
        return (2, int(v))
    ops = {'<': op_.lt, '<=': op_.le, '=': op_.eq, '<>': op_.ne, '>': op_.gt, '>=': op_.ge}
    py = {'<': '<', '<=': '<=', '=': '==', '<>': '!=', '>': '>', '>=': '>='}
    world = World()
    n = 0
    for la, a in vals:
        for lb, b in vals:
            if kind[la] == 'Text' and kind[lb] != 'Text':
                continue
            if (la in numeric_looking or lb in numeric_looking) and not (kind[la] == 'Text' and kind[lb] == 'Text'):
                continue        # the further texts are compared with texts (their place among the other classes is decided by "1", "a")
            for sym, fn in ops.items():
                want = fn(key(la, lb), key(lb, la))
                it = Interp(ctx.a, fm, {'a': a, 'b': b}, inline_pkg=True, world=world)
                out = it.run([ast.parse(f'return a {py[sym]} b').body[0]])
                if out.end == 'return' and isinstance(out.value, Rec) and out.value.f.get('cls') == XLT + 'Boolean':
                    got = out.value.f.get('value')
                elif out.end == 'return' and isinstance(out.value, bool):
                    got = out.value
                else:
                    got = f'<{out.end} {out.value!r}>'
                n += 1
                ctx.expect(got == want, anchor, f'{la} {sym} {lb}',
                           f'the comparison {la} {sym} {lb} gives {got!r}, expected {want!r} under the one total order (numbers < texts < FALSE < TRUE, '
                           'texts case-insensitive, a blank is the 0 / "" / FALSE of its partner): exactly one of <, =, > may hold and <=, >=, <> '
                           'must follow from them')
    ctx.floor(1500, 'comparison rows')


def rule_8(ctx):
    """The ordered comparisons as library calls on native Python arguments, all in ONE process (one world, the calls one after
    the other, forwards and backwards): a native value is the value of its own type - True is a boolean, 1.0 a number - whatever
    was compared before. (= and <> on native arguments and a text on the left of a non-text are the known findings of C09.3 /
    C09.5's sibling rule and are left to them.)"""
    import operator as op_
    from . import values as V
    from xlsa.guards import World
    natives = [('True', True, (2, 1)), ('1.0', 1.0, (0, 1.0)), ('1', 1, (0, 1)), ('False', False, (2, 0)), ('0.0', 0.0, (0, 0.0)), ('0', 0, (0, 0)),
               ('2.5', 2.5, (0, 2.5)), ("'abc'", 'abc', (1, 'ABC')), ("'ABD'", 'ABD', (1, 'ABD')), ("''", '', (1, ''))]
    table = {'OP_LT': op_.lt, 'OP_LE': op_.le, 'OP_GT': op_.gt, 'OP_GE': op_.ge}
    calls = [(name, fn, a, b) for name, fn in table.items() for a in natives for b in natives if not (a[2][0] == 1 and b[2][0] != 1)]
    if ctx.tier == 'quick':
        calls = calls[::2] + calls[1::6]
    n = 0
    for oname, order in (('forwards', calls), ('backwards', list(reversed(calls)))):
        world = World()
        wrong = {}
        for name, fn, (la, a, ka), (lb, b, kb) in order:
            out = V.call(ctx, name, [a, b], world=world)
            got = V.norm(out.value) if out.end == 'return' else (out.end, V.norm(out.value))
            val = got[1] if isinstance(got, tuple) and len(got) == 2 and got[0] == 'Boolean' else got
            n += 1
            if val is not fn(ka, kb):
                wrong.setdefault(name, []).append(f'{name}({la}, {lb}) = {got!r} instead of {fn(ka, kb)}')
        for name in table:
            f = V.registered(ctx, name)
            ctx.expect(name not in wrong, f.node, f'{name} on native arguments, calls made {oname} in one process',
                       f'{"; ".join(wrong.get(name, [])[:4])}: a native argument is the value of its own Python type (True a boolean, 1.0 a number) '
                       'whatever was compared earlier in the process')
    ctx.floor(8, 'four ordered comparisons x two call orders')
    ctx.note(f'{n} calls')


def rule_7(ctx):
    """The operands of a comparison are what the cells hold: a constant cell evaluates to the value class of its content."""
    from . import corelemma
    n = corelemma.rule_constant_cells(ctx)
    ctx.floor(n, 'constant cell kinds')


RULES = [
    ('C09.1', 'the six base comparisons agree', rule_1),
    ('C09.2', 'type precedence', rule_2),
    ('C09.3', 'overrides are complete and type-aware', rule_3),
    ('C09.4', 'blank conversions are total and terminate', rule_4),
    ('C09.5', 'comparison wrappers', rule_5),
    ('C09.6', 'pairwise comparison table over representative values of every class', rule_6),
    ('C09.7', 'constant cells evaluate to the value class of their content ("" is a text, not a blank)', rule_7),
    ('C09.8', 'ordered comparisons on native arguments in one process, in both call orders', rule_8),
]
