"""C02 - every well-formed formula parses to the tree its text denotes (structural part)."""
import ast

from xlsa import Unmodelled, AnchorMissing
from xlsa.consteval import Ref, Obj, Unfoldable
from xlsa.guards import Interp, Rec, PyModel, Opaque
from xlsa.load import walk_local, names_in, dotted
from xlsa import flow
from .common import const_compares, XLERR
from .c01 import _tok_consts

PROPERTY = 'C02'
EXPLANATION = (
    'Decided from source, mostly by interpreting it on witness formulas: (C02.1) no syntactic decision in the parser, the '
    "tokenizer's second pass, the operand node or XLFormula depends on the characters of a string literal (three-valued "
    'path conditions); (C02.2) every prefix of four witness formulas that exercise all scanner states tokenizes without a '
    'Python-level exception (a prefix ending right after an argument separator is allow-listed); (C02.3) witness formulas '
    'containing every kind of token - calls with argument lists, nested calls, arrays, booleans, error literals, numbers in'
    ' every notation, sheet-qualified and absolute references, string literals full of syntax characters - are parsed '
    '(FormulaParser.parse interpreted as written) into the tree the text denotes; (C02.4) the three error-literal tables '
    'agree; (C02.5) inside a string literal, a quoted sheet name, a bracketed workbook part and an error literal operators,'
    ' parentheses, commas, braces and quotes of the other kind split nothing, a doubled quote is one quote - witness '
    "formulas tokenized as written; (C02.6) a formula is tokenised on construction; (C02.7) a leading '=', leading blanks, "
    "line breaks and blanks between tokens and '@' before a function name do not change the tree; (C02.8) a blank between "
    'two tokens is dropped, or becomes the intersection operator exactly between something that ends a value and something '
    'that starts one, for every pair of contexts, on the token stream FormulaParser.tokenize produces; (C02.9) operator '
    'trees (shared with C01.1-.5); (C02.10) witness formulas through FormulaParser.tokenize and OperandNode.eval: literals '
    'keep blanks, tabs, line breaks and (un-doubled) quotes, quoted sheet names their characters. (C02.3) additionally '
    'generated tables: 15 argument forms in every position of nested calls, runs of quote characters in string literals; '
    '(C02.4) the seven error literals tokenized in four contexts.'
    " (C02.11) sequences of parser calls in one process; (C02.12) the tree a compiled model holds for a cell is the tree of that cell's own text: 36 twins that differ only in the kind of one token (reference / quoted text, number / quoted number, defined name / literal spelt like it, other blanks) side by side in one model with defined names.")
NOT_DECIDED = ('equivalence of the hand-written state machine and the shunting-yard argument counting '
               'with the formula grammar for all texts (needs execution against a reference parser)')
TRUSTED = ['token kinds of the grammar transcribed from the property statement']


def tri(interp_factory, test):
    """Three-valued truth of a test: True / False / None (unknown)."""
    if isinstance(test, ast.BoolOp):
        vals = [tri(interp_factory, v) for v in test.values]
        if isinstance(test.op, ast.And):
            if any(v is False for v in vals):
                return False
            return True if all(v is True for v in vals) else None
        if any(v is True for v in vals):
            return True
        return False if all(v is False for v in vals) else None
    if isinstance(test, ast.UnaryOp) and isinstance(test.op, ast.Not):
        v = tri(interp_factory, test.operand)
        return None if v is None else (not v)
    it = interp_factory()
    try:
        v = it.ev(test)
        return bool(it.truth(v))
    except Unmodelled:
        return None
    except Exception:
        return None


CHAR_METHODS = {'startswith', 'endswith', 'find', 'index', 'count', 'isdigit', 'isalpha',
                'isnumeric', 'split', 'partition', 'rpartition'}


def _tvalue_inspections(fnode):
    """Sites where the characters of some <expr>.tvalue drive a decision.

    Returns [(site node, owner expr node (the <expr>), description)].
    """
    out = []
    aliases = {}   # local name -> (owner expr, assign stmt)
    for n in walk_local(fnode):
        if isinstance(n, ast.Assign) and len(n.targets) == 1 and isinstance(n.targets[0], ast.Name) \
                and isinstance(n.value, ast.Attribute) and n.value.attr == 'tvalue':
            aliases[n.targets[0].id] = (n.value.value, n)

    def owners(sub):
        res = []
        for x in ast.walk(sub):
            if isinstance(x, ast.Attribute) and x.attr == 'tvalue' and isinstance(x.ctx, ast.Load):
                res.append(x.value)
            elif isinstance(x, ast.Name) and x.id in aliases and isinstance(x.ctx, ast.Load):
                res.append(aliases[x.id][0])
        return res

    for n in walk_local(fnode):
        if isinstance(n, ast.Compare):
            # type(x.tvalue) == str inspects the type, not the characters
            operands = [n.left] + list(n.comparators)
            for o in operands:
                if isinstance(o, ast.Call) and isinstance(o.func, ast.Name) and o.func.id in ('type', 'len'):
                    continue
                for ow in owners(o):
                    out.append((n, ow, f'compare `{ast.unparse(n)[:50]}`'))
        elif isinstance(n, ast.Call):
            if isinstance(n.func, ast.Attribute) and n.func.attr in CHAR_METHODS:
                for ow in owners(n.func.value):
                    out.append((n, ow, f'call `{ast.unparse(n)[:50]}`'))
            elif isinstance(n.func, ast.Name) and n.func.id in ('float', 'int') and n.args:
                for ow in owners(n.args[0]):
                    out.append((n, ow, f'call `{ast.unparse(n)[:50]}`'))
        elif isinstance(n, ast.Subscript) and not isinstance(n.slice, ast.Slice):
            # TABLE[x.tvalue]: a lookup keyed by the text
            if not (isinstance(n.value, ast.Attribute) and n.value.attr == 'tvalue'):
                for ow in owners(n.slice):
                    out.append((n, ow, f'lookup `{ast.unparse(n)[:50]}`'))
    # de-duplicate (a Compare inside a Compare etc.)
    seen = set()
    uniq = []
    for site, ow, desc in out:
        k = (id(site), ast.dump(ow))
        if k not in seen:
            seen.add(k)
            uniq.append((site, ow, desc))
    return uniq, aliases


def rule_1(ctx):
    consts = _tok_consts(ctx)
    text_tok = dict(ttype=consts['TOK_TYPE_OPERAND'], tsubtype=consts['TOK_SUBTYPE_TEXT'])
    anchors = [
        ('parser', 'FormulaParser.shunting_yard', None),
        ('parser', 'FormulaParser.create_node', None),
        ('parser', 'FormulaParser.build_ast', None),
        ('tokenizer', 'ExcelParser.getTokens', 'pkg:tokenizer:ExcelParser'),
        ('ast_nodes', 'OperandNode.eval', None),
        ('xltypes', 'XLFormula.__post_init__', None),
    ]
    for modname, qual, self_class in anchors:
        m = ctx.mod(modname)
        fnode = m.func(qual)
        sites, aliases = _tvalue_inspections(fnode)
        counter = {}
        for site, owner, desc in sites:
            owner_dump = ast.dump(owner)

            def make_env():
                # bind the owner expression to an abstract text operand
                rec = Rec(tvalue=Opaque('string literal content'), **text_tok)
                env = {}
                if isinstance(owner, ast.Name):
                    env[owner.id] = rec
                return env, rec

            def factory():
                env, rec = make_env()
                it = Interp(ctx.a, m, env, self_class=self_class, scope_fn=fnode)
                if not isinstance(owner, ast.Name):
                    # owner like stack[-1]: substitute structurally
                    orig_ev = it.ev

                    def ev(n, _orig=orig_ev, _rec=rec):
                        if not isinstance(n, ast.Constant) and ast.dump(n) == owner_dump:
                            return _rec
                        return _orig(n)
                    it.ev = ev
                return it

            conds = list(flow.path_conditions(site))
            # an alias read inherits the conditions of the alias assignment
            for x in ast.walk(site):
                if isinstance(x, ast.Name) and x.id in aliases:
                    conds += list(flow.path_conditions(aliases[x.id][1]))
            # the site itself may be a later operand of a BoolOp whose earlier operands exclude text
            excluded = False
            for c in conds:
                v = tri(factory, c.test)
                if v is not None and v != c.polarity:
                    excluded = True
                    break
            k = desc
            counter[k] = counter.get(k, 0) + 1
            construct = f'{desc}#{counter[k]}'
            ctx.expect(excluded, site, construct,
                       f'{desc} is reachable for a string-literal operand: a syntactic decision depends '
                       f'on the characters of a text literal (e.g. =A1&": "&B1, =":x")')
    ctx.floor(6, 'inspections of token text in parser/tokenizer/operand node/XLFormula')


PREFIX_WITNESSES = [
    '=SUM(A1,"a""b",{1,2;3,4})*-50%+\'My S\'!$B$2:C3&#N/A>=1.5E+3',
    '=IF([Book1]Sheet1!A1<>"",TRUE, B1 C1)',
    "='It''s'!A1 + #REF! ",
    '=A1:B2 C1:C3^2*50%',
]


def rule_2(ctx):
    """The tokenizer never reads beyond the end of the formula: every prefix of witness formulas that exercise each state of the
    scanner (string, quoted sheet name, bracket, error literal, array, scientific notation, blanks, two-character comparators),
    tokenized as written, ends without a Python-level exception - wherever the text stops. (A prefix that ends right after an
    argument separator is allow-listed: a well-formed formula never ends in a comma.)"""
    from . import parsetables as P
    gt = ctx.mod('tokenizer').func('ExcelParser.getTokens')
    n = 0
    for f in PREFIX_WITNESSES:
        lengths = range(2, len(f) + 1) if ctx.tier != 'quick' else sorted(set(list(range(2, len(f) + 1, 2)) + [len(f)]))
        bad = []
        for i in lengths:
            p = f[:i]
            if p.rstrip().endswith(','):
                continue
            n += 1
            t = P.tokens_of(ctx, p)
            if not isinstance(t, list):
                bad.append(f'{p!r} -> {t[1] if isinstance(t, tuple) and len(t) > 1 else t}')
        ctx.expect(not bad, gt, f'every prefix of {f[:24]}... tokenizes',
                   'tokenizing ends in a Python-level exception for ' + '; '.join(bad[:4]) + ': a single-character read of the formula '
                   'is not preceded by a still-valid end-of-formula test')
    ctx.floor(4, 'prefix families')
    ctx.note(f'{n} prefixes tokenized')


GRAMMAR_OPERANDS = ['TOK_SUBTYPE_TEXT', 'TOK_SUBTYPE_NUMBER', 'TOK_SUBTYPE_LOGICAL',
                    'TOK_SUBTYPE_ERROR', 'TOK_SUBTYPE_RANGE']


def _rule_3_fragment(ctx):
    consts = _tok_consts(ctx)
    pm = ctx.mod('parser')
    sy = pm.func('FormulaParser.shunting_yard')
    # the main dispatch loop: the last `for token in tokens` of shunting_yard
    loops = [s for s in sy.body if isinstance(s, ast.For)]
    main = None
    for lp in loops:
        if any(isinstance(s, ast.If) for s in lp.body) and any(
                isinstance(c, ast.Call) and isinstance(c.func, ast.Attribute) and c.func.attr == 'create_node'
                for c in ast.walk(lp)):
            main = lp
    if main is None or not isinstance(main.target, ast.Name):
        raise AnchorMissing('shunting_yard main dispatch loop')
    tokvar = main.target.id
    chain = next(s for s in main.body if isinstance(s, ast.If))
    arms = []
    node = chain
    while True:
        arms.append(node)
        if len(node.orelse) == 1 and isinstance(node.orelse[0], ast.If):
            node = node.orelse[0]
        else:
            break
    O, F, S, A = (consts['TOK_TYPE_OPERAND'], consts['TOK_TYPE_FUNCTION'], consts['TOK_TYPE_SUBEXPR'],
                  consts['TOK_TYPE_ARGUMENT'])
    # kinds as they arrive in the main loop (after the pre-pass that rewrites function start/stop
    # into function + arglist tokens)
    kinds = {}
    for sub in GRAMMAR_OPERANDS:
        kinds[f'operand/{consts[sub]}'] = dict(ttype=O, tsubtype=consts[sub], tvalue='x')
    kinds['function'] = dict(ttype=F, tsubtype='', tvalue='SUM')
    kinds['arglist/start'] = dict(ttype='arglist', tsubtype=consts['TOK_SUBTYPE_START'], tvalue='(')
    kinds['arglist/stop'] = dict(ttype='arglist', tsubtype=consts['TOK_SUBTYPE_STOP'], tvalue=')')
    kinds['subexpression/start'] = dict(ttype=S, tsubtype=consts['TOK_SUBTYPE_START'], tvalue='(')
    kinds['subexpression/stop'] = dict(ttype=S, tsubtype=consts['TOK_SUBTYPE_STOP'], tvalue=')')
    kinds['argument'] = dict(ttype=A, tsubtype='', tvalue=',')
    kinds['operator-infix'] = dict(ttype=consts['TOK_TYPE_OP_IN'], tsubtype=consts['TOK_SUBTYPE_MATH'], tvalue='+')
    kinds['operator-prefix'] = dict(ttype=consts['TOK_TYPE_OP_PRE'], tsubtype='', tvalue='-')
    selected = {}
    for label, tok in kinds.items():
        sel = None
        for i, arm in enumerate(arms):
            it = Interp(ctx.a, pm, {tokvar: Rec(**tok)})
            try:
                if it.truth(it.ev(arm.test)):
                    sel = i
                    break
            except Unmodelled as exc:
                raise Unmodelled(f'arm test {ast.unparse(arm.test)[:40]}: {exc}')
        selected[label] = sel
        ctx.expect(sel is not None, chain, f'shunting_yard arm for {label}',
                   f'token kind {label} is not handled by any arm of the shunting-yard loop (silently dropped)')
    groups = [
        [k for k in kinds if k.startswith('operand/')], ['function'], ['argument'],
        ['operator-infix', 'operator-prefix'], ['arglist/start', 'subexpression/start'],
        ['arglist/stop', 'subexpression/stop'],
    ]
    for g in groups:
        same = len({selected[k] for k in g}) == 1
        ctx.expect(same, chain, f'shunting_yard arm shared by {g[0]}..',
                   f'token kinds {g} are handled by different arms {[selected[k] for k in g]}')
    reps = [g[0] for g in groups]
    distinct = len({selected[k] for k in reps}) == len(reps)
    ctx.expect(distinct, chain, 'shunting_yard arms distinct per class',
               f'different token classes share an arm: { {k: selected[k] for k in reps} }')
    # the pre-pass turns function start/stop into function + arglist start / arglist stop
    pre = next((lp for lp in loops if lp is not main and any(
        isinstance(c, ast.Call) and dotted(c.func) and dotted(c.func).endswith('f_token') for c in ast.walk(lp))), None)
    if pre is None:
        raise AnchorMissing('shunting_yard pre-pass inserting arglist tokens')
    pv = pre.target.id
    for sub, want in ((consts['TOK_SUBTYPE_START'], 2), (consts['TOK_SUBTYPE_STOP'], 1)):
        it = Interp(ctx.a, pm, {pv: Rec(ttype=F, tsubtype=sub, tvalue='SUM'), 'named_ranges': {}},
                    effect_receivers=('tokenizer',), record_unknown=True)
        out = it.run(pre.body)
        appended = [e for e in out.events if e[0].endswith('.append')]
        ctx.expect(len(appended) == want, pre, f'pre-pass function/{sub}',
                   f'function {sub} token yields {len(appended)} tokens, expected {want}')
    # create_node: node class per kind
    cn = pm.func('FormulaParser.create_node')
    want_cls = {'operand/' + consts['TOK_SUBTYPE_RANGE']: 'RangeNode', 'function': 'FunctionNode',
                'operator-infix': 'OperatorNode', 'operator-prefix': 'OperatorNode',
                'operand/pointer': 'RangeNode'}
    for sub in GRAMMAR_OPERANDS:
        want_cls.setdefault('operand/' + consts[sub], 'OperandNode')
    allk = dict(kinds)
    allk['operand/pointer'] = dict(ttype=O, tsubtype='pointer', tvalue='x')
    tokparam = [a.arg for a in cn.args.args if a.arg != 'self'][0]
    for label, cls in want_cls.items():
        it = Interp(ctx.a, pm, {tokparam: Rec(**allk[label])}, effect_receivers=('ast_nodes',))
        out = it.run(cn.body)
        got = out.value.label.rsplit('.', 1)[-1] if isinstance(out.value, Opaque) else f'{out.end}'
        ctx.expect(got == cls, cn, f'create_node({label})',
                   f'create_node builds {got} for a {label} token, expected {cls}')
    # OperandNode.eval: conversion per operand subtype
    am = ctx.mod('ast_nodes')
    ev = am.func('OperandNode.eval')
    want_conv = {consts['TOK_SUBTYPE_LOGICAL']: 'Boolean', consts['TOK_SUBTYPE_TEXT']: 'Text',
                 consts['TOK_SUBTYPE_NUMBER']: 'Number'}
    for sub, cls in want_conv.items():
        it = Interp(ctx.a, am, {'self': Rec(tsubtype=sub, tvalue=Opaque('v'), ttype=O), 'context': Rec(ref='r')},
                    effect_receivers=('func_xltypes', 'xlerrors'))
        out = it.run(ev.body)
        got = out.value.label if isinstance(out.value, Opaque) else str(out.end)
        ctx.expect(f'.{cls}' in got, ev, f'OperandNode.eval({sub})',
                   f'a {sub} literal evaluates through {got}, expected the {cls} type')
    xm = ctx.mod('xlfunctions.xlerrors')
    by_code = {}
    for qual, cnode in xm.classes.items():
        decs = [ctx.res.resolve(d if not isinstance(d, ast.Call) else d.func, xm) for d in cnode.decorator_list]
        if 'pkg:xlfunctions.xlerrors:register' in decs:
            cm_, val_ = ctx.res.class_attr(f'pkg:xlfunctions.xlerrors:{qual}', 'value')
            try:
                by_code[ctx.fold(val_, cm_)] = Ref(f'pkg:xlfunctions.xlerrors:{qual}')
            except (Unfoldable, AttributeError):
                pass
    wrong = []
    for code in list(by_code) + ['#FOO!']:
        it = Interp(ctx.a, am, {'self': Rec(tsubtype=consts['TOK_SUBTYPE_ERROR'], tvalue=code, ttype=O), 'context': Rec(ref='r'),
                                'xlerrors': Rec(ERRORS_BY_CODE=dict(by_code), ExcelError=Ref('pkg:xlfunctions.xlerrors:ExcelError'))},
                    scope_fn=ev)
        out = it.run(ev.body)
        want = by_code.get(code, Ref('pkg:xlfunctions.xlerrors:ExcelError')).ref
        got = out.value.get('cls') if isinstance(out.value, Rec) and 'cls' in out.value.f else f'{out.end} {out.value!r}'
        if got != want:
            wrong.append((code, got))
    ctx.expect(not wrong and len(by_code) == 7, ev, 'OperandNode.eval(error)',
               f'error literals are not materialised as the error class registered for their code: {wrong[:3]}')
    # the tokenizer assigns every operand subtype somewhere
    tm = ctx.mod('tokenizer')
    gt = tm.func('ExcelParser.getTokens')
    mentioned = {x.attr for x in walk_local(gt) if isinstance(x, ast.Attribute)}
    for sub in GRAMMAR_OPERANDS + ['TOK_TYPE_ARGUMENT', 'TOK_TYPE_OP_PRE', 'TOK_TYPE_OP_IN',
                                   'TOK_TYPE_FUNCTION', 'TOK_TYPE_SUBEXPR', 'TOK_SUBTYPE_START']:
        ctx.expect(sub in mentioned, gt, f'tokenizer produces {sub}',
                   f'the tokenizer never produces token kind {sub}')
    ctx.floor(40, 'token kinds x consumers')


def rule_4(ctx):
    """Error literals: each of Excel's seven codes is one operand token of the error sub-type wherever it stands (tokenized by
    ExcelParser.getTokens as written), and the code tables of xlerrors agree with them."""
    from . import parsetables as P
    tm = ctx.mod('tokenizer')
    gt = tm.func('ExcelParser.getTokens')
    tok_codes = set()
    for code in ('#NULL!', '#DIV/0!', '#VALUE!', '#REF!', '#NAME?', '#NUM!', '#N/A'):
        ok = True
        for formula, want in ((f'={code}', [code]), (f'={code}+1', [code, '+', '1']), (f'=1&{code}', ['1', '&', code]),
                              (f'=IFERROR({code},{code})', ['IFERROR', code, ',', code, ''])):
            toks = P.tokens_of(ctx, formula)
            if not (isinstance(toks, list) and [t[0] for t in toks] == want and all(t[2] == 'error' for t in toks if t[0] == code)):
                ok = False
        if ok:
            tok_codes.add(code)

    class _Lit:
        lineno = gt.lineno
    lit = [gt]
    xm = ctx.mod('xlfunctions.xlerrors')
    codes = ctx.fold(xm.assign('ERROR_CODES'), xm)
    code_set = set(codes)
    registered = {}
    for qual, cnode in xm.classes.items():
        decs = [ctx.res.resolve(d if not isinstance(d, ast.Call) else d.func, xm) for d in cnode.decorator_list]
        if 'pkg:xlfunctions.xlerrors:register' in decs:
            cm, val = ctx.res.class_attr(f'pkg:xlfunctions.xlerrors:{qual}', 'value')
            try:
                registered[ctx.fold(val, cm)] = qual
            except (Unfoldable, AttributeError):
                ctx.unmodelled(cnode, f'{qual}.value not a constant')
    ctx.expect(tok_codes == code_set, lit[0], 'tokenizer error literals == ERROR_CODES',
               f'tokenizer recognises {sorted(tok_codes)} but xlerrors.ERROR_CODES is {sorted(code_set)}')
    ctx.expect(set(registered) == code_set, xm.assign('ERROR_CODES'), 'registered error classes == ERROR_CODES',
               f'classes registered in ERRORS_BY_CODE cover {sorted(registered)}; codes are {sorted(code_set)}')
    ctx.expect(len(code_set) == 7 and len(codes) == 7, xm.assign('ERROR_CODES'), 'seven error codes',
               f'{len(code_set)} distinct error codes instead of 7')
    want = {'#NULL!', '#DIV/0!', '#VALUE!', '#REF!', '#NAME?', '#NUM!', '#N/A'}
    ctx.expect(code_set == want, xm.assign('ERROR_CODES'), 'error codes are Excel\'s',
               f'error codes {sorted(code_set ^ want)} differ from Excel\'s seven')
    # the end of an error literal is decided by membership of the *whole* accumulated token
    ctx.floor(4, 'three tables + count')


STATE_WITNESSES = [
    # (formula, content that must end up inside ONE operand token, in order)
    ('="a+(b,{c}#\'[ %;<>"', 'a+(b,{c}#\'[ %;<>'),
    ('="say ""+"" now"', 'say "+" now'),
    ("='My+Sheet(1),{x}'!A1", 'My+Sheet(1),{x}!A1'),
    ("='It''s (a) \"b\"'!B2", 'It\'s (a) "b"!B2'),
    ('=[Book+1,(x)]Sheet1!A1', 'Book+1,(x)]Sheet1!A1'),
    ('=#REF!', '#REF!'), ('=#DIV/0!', '#DIV/0!'), ('=#N/A', '#N/A'),
]


def rule_5(ctx):
    """Scanner states come first: inside a string literal, a quoted sheet name, a bracketed workbook part and an error literal every
    character is content - operators, parentheses, commas, braces, quotes of the other kind split nothing - and a doubled quote is
    one quote. Decided by tokenizing witness formulas as written."""
    from . import parsetables as P
    gt = ctx.mod('tokenizer').func('ExcelParser.getTokens')

    def inside(content, text):
        it = iter(text)
        return all(ch in it for ch in content)
    for formula, content in STATE_WITNESSES:
        for wrapped, extra in ((formula, 0), ('=1+' + formula[1:] + '&"z"', 4)):
            toks = P.tokens_of(ctx, wrapped)
            ok = isinstance(toks, list) and len(toks) == 1 + extra and any(t[1] == 'operand' and inside(content, t[0]) for t in toks)
            if ok and formula.startswith('="'):
                ok = any(t[0] == content and t[2] == 'text' for t in toks)
            ctx.expect(ok, gt, f'state content is opaque: {wrapped}',
                       f'{wrapped} is tokenized as {toks!r}: the characters {content!r} must end up inside one operand token (a string literal '
                       'with exactly these characters)')
    ctx.floor(16, 'state witnesses')


def rule_9(ctx):
    """Operator tree shape: shares the precedence relation and the pop table of C01."""
    from . import c01
    c01.rule_1(ctx)
    c01.rule_2(ctx)
    c01.rule_3(ctx)
    c01.rule_5(ctx)


def rule_6(ctx):
    xm = ctx.mod('xltypes')
    pi = xm.func('XLFormula.__post_init__')
    calls = [c for c in flow.calls_in(pi) if isinstance(c.func, ast.Attribute) and c.func.attr == 'getTokens']
    uncond = [c for c in calls if not [k for k in flow.path_conditions(c) if k.kind in ('if', 'while', 'guard')]]
    ctx.note(f'XLFormula.__post_init__ tokenises on construction: {len(uncond)} unconditional call(s); '
             f'a tokenizer crash therefore makes a model unloadable (context for C02.1/C02.2)')
    ctx.expect(bool(uncond), pi, 'formula tokenised on construction',
               'XLFormula no longer tokenises its text on construction: terms/ranges would be empty')


TREE_WITNESSES = [
    # every kind of token the grammar has, consumed into the tree the text denotes
    ('=SUM(A1,B1:B3,2)', ('call', 'SUM', 'A1', 'B1:B3', 2)),
    ('=IF(A1>0,"y",-A1)', ('call', 'IF', ('op', '>', 'A1', 0), 'y', ('op', '-', 'A1'))),
    ('=MAX(SUM(A1:A2),ABS(-3))*2', ('op', '*', ('call', 'MAX', ('call', 'SUM', 'A1:A2'), ('call', 'ABS', ('op', '-', 3))), 2)),
    ('=PI()', ('call', 'PI')),
    ('=PI()*A1^2', ('op', '*', ('call', 'PI'), ('op', '^', 'A1', 2))),
    ('=TRUE', True), ('=FALSE', False), ('=AND(TRUE,FALSE)', ('call', 'AND', True, False)),
    ('=#N/A', '#N/A'), ('=ISNA(#N/A)', ('call', 'ISNA', '#N/A')), ('=#DIV/0!+1', ('op', '+', '#DIV/0!', 1)), ('=IFERROR(#REF!,#VALUE!)', ('call', 'IFERROR', '#REF!', '#VALUE!')),
    ('=1.5E+3+A1', ('op', '+', 1500.0, 'A1')), ('=2E-2*3', ('op', '*', 0.02, 3)), ('=12.75', 12.75), ('=007', 7),
    ('=1.25E+5', 125000.0), ('=6.02E+23*2', ('op', '*', 6.02e23, 2)), ('=1.05E-5', 1.05e-05), ('=A1*1.23456789012345E+30-1', ('op', '-', ('op', '*', 'A1', 1.23456789012345e30), 1)),
    ('=9.999E-7+1E+30', ('op', '+', 9.999e-07, 1e30)), ('=123456789012345', 123456789012345), ('=0.000001', 0.000001), ('=1E+2', 100.0), ('=5e-1', 0.5),
    ('=.5+1', ('op', '+', 0.5, 1)), ('=2*.5', ('op', '*', 2, 0.5)), ('=5.+1', ('op', '+', 5.0, 1)), ('=2^.5', ('op', '^', 2, 0.5)), ('=A1-.25', ('op', '-', 'A1', 0.25)),
    ('=SUM(.5,5.,1.)', ('call', 'SUM', 0.5, 5.0, 1.0)), ('=10/.5/5.', ('op', '/', ('op', '/', 10, 0.5), 5.0)), ('=(.25)*4', ('op', '*', 0.25, 4)),
    ("=Sheet2!A1+'My Sheet'!$B$2", ('op', '+', 'Sheet2!A1', 'My Sheet!$B$2')), ('=$A$1:B$2', '$A$1:B$2'),
    ('={1,2;3,4}', ('call', 'ARRAY', ('call', 'ARRAYROW', 1, 2), ('call', 'ARRAYROW', 3, 4))),
    ('=SUM({1,2},3)', ('call', 'SUM', ('call', 'ARRAY', ('call', 'ARRAYROW', 1, 2)), 3)),
    ('=_xlfn.CONCAT(A1,"x")', ('call', '_XLFN.CONCAT', 'A1', 'x')),
    ('=CHOOSE(2,A1,B1,(C1+1))', ('call', 'CHOOSE', 2, 'A1', 'B1', ('op', '+', 'C1', 1))),
    # string literals are opaque: colons, operator characters, function names, quotes inside them decide nothing
    ('=":x"&A1', ('op', '&', ':x', 'A1')), ('=A1&": "&B1', ('op', '&', ('op', '&', 'A1', ': '), 'B1')), ('="a:OFFSET"&A1', ('op', '&', 'a:OFFSET', 'A1')),
    ('=LEN(": total")', ('call', 'LEN', ': total')), ('="say ""hi"""', 'say "hi"'), ('="1+2"', '1+2'), ('="SUM(A1)"&"%"', ('op', '&', 'SUM(A1)', '%')),
    ('=CONCATENATE("a,b",")","(")', ('call', 'CONCATENATE', 'a,b', ')', '(')), ('="x:INDEX"', 'x:INDEX'), ('=IF("TRUE"="true",1,2)', ('call', 'IF', ('op', '=', 'TRUE', 'true'), 1, 2)),
]
# argument forms x argument positions: what precedes or follows an argument must not change how it (or the separator) is read
ARGUMENT_FORMS = [
    ('A1', 'A1'), ('7', 7), ('"t,)"', 't,)'), ('(A1+2)', ('op', '+', 'A1', 2)), ('(B1)', 'B1'), ('MAX(B1,2)', ('call', 'MAX', 'B1', 2)),
    ('-(C1)', ('op', '-', 'C1')), ('A1:B2', 'A1:B2'), ('{1,2}', ('call', 'ARRAY', ('call', 'ARRAYROW', 1, 2))), ('NOW()', ('call', 'NOW')),
    ('((A1))', 'A1'), ('A1*(B1-1)', ('op', '*', 'A1', ('op', '-', 'B1', 1))), ('TRUE', True), ('#N/A', '#N/A'), ('50%', 0.5),
]


def _argument_rows():
    rows = []
    for text, tree in ARGUMENT_FORMS:
        rows.append((f'=F({text},X1,9)', ('call', 'F', tree, 'X1', 9)))
        rows.append((f'=F(X1,{text},9)', ('call', 'F', 'X1', tree, 9)))
        rows.append((f'=F(X1,9,{text})', ('call', 'F', 'X1', 9, tree)))
        rows.append((f'=G(F({text},X1),{text})', ('call', 'G', ('call', 'F', tree, 'X1'), tree)))
        rows.append((f'=({text})+F({text},1)', ('op', '+', tree, ('call', 'F', tree, 1))))
    return rows


# runs of quote characters inside a string literal: 2k written quotes stand for k quotes, wherever they are
def _quote_rows():
    rows = []
    for k in (1, 2, 3):
        q = '"' * k
        for shape in ('a{}b', '{}b', 'a{}', '{}', 'a{}b{}c'):
            content = shape.format(*([q] * shape.count('{}')))
            written = '"' + content.replace('"', '""') + '"'
            rows.append((f'={written}', content))
            rows.append((f'=LEN({written})&{written}', ('op', '&', ('call', 'LEN', content), content)))
    return rows


RENDERINGS = [
    # renderings that must not change the tree: leading "=", leading blanks, line breaks, "@" before a function name
    ('=A1+1', ['A1+1', ' =A1+1', '= A1+1', '=\nA1+1', '=A1+\n1', '=A1 + 1']),
    ('=SUM(A1,B1)', ['=@SUM(A1,B1)', '=SUM( A1 , B1 )', 'SUM(A1,B1)', '=SUM(A1,\nB1)']),
    ('=-A1^2', ['= -A1^2', '=- A1 ^ 2']),
    ('=(A1+B1)*C1', ['=( A1 + B1 ) * C1', '=(A1+B1)*C1 ']),
]


def rule_3(ctx):
    """Every kind of token the grammar has ends up where the text says: witness formulas with function calls, argument lists,
    nested calls, arrays, booleans, error literals, numbers in every notation, sheet-qualified and absolute references and
    string literals full of syntax characters - parsed by FormulaParser.parse as written, the tree read back symbolically."""
    from . import parsetables as P
    models = P.operator_models(ctx)
    anchor = ctx.mod('parser').func('FormulaParser.parse')
    for formula, want in TREE_WITNESSES:
        got = P.parse_tree(ctx, formula, models)
        ctx.expect(got == P.refify(want), anchor, f'tree of {formula}',
                   f'{formula!r} is parsed as {got!r}, expected {want!r}: every token must be consumed as what the text denotes (calls with their '
                   'arguments in order, literals with their value, references with their text, string literals as opaque text)')
    generated = _argument_rows() + _quote_rows()
    if ctx.tier == 'quick':
        generated = generated[::2]
    for formula, want in generated:
        got = P.parse_tree(ctx, formula, models)
        ctx.expect(got == P.refify(want), anchor, f'tree of {formula}',
                   f'{formula!r} is parsed as {got!r}, expected {want!r}: an argument is read the same whatever stands before or after it, and '
                   'a string literal keeps its exact characters (two written quotes for each quote)')
    ctx.floor(len(TREE_WITNESSES) + len(generated), 'witness formulas')


def rule_7(ctx):
    """Renderings that must not matter: a leading "=", leading blanks, line breaks and blanks between tokens, "@" before a
    function name - the tree is that of the plain rendering."""
    from . import parsetables as P
    models = P.operator_models(ctx)
    anchor = ctx.mod('parser').func('FormulaParser.tokenize')
    n = 0
    for plain, others in RENDERINGS:
        want = P.parse_tree(ctx, plain, models)
        for g in others:
            got = P.parse_tree(ctx, g, models)
            n += 1
            ctx.expect(got == want and not (isinstance(want, tuple) and want and want[0] == 'raise'), anchor, f'rendering {g!r} of {plain}',
                       f'{g!r} is parsed as {got!r} but {plain!r} as {want!r}: a leading "=", blanks, line breaks and "@" must not matter')
    ctx.floor(n, 'renderings')


def rule_8(ctx):
    """A blank between two tokens: dropped, or the intersection operator exactly between something that ends a value (reference,
    literal, closing parenthesis of a call or sub-expression) and something that starts one - for every pair of contexts, on the
    token stream FormulaParser.tokenize produces."""
    from . import parsetables as P
    consts = _tok_consts(ctx)
    anchor = ctx.mod('parser').func('FormulaParser.tokenize')
    n = 0
    for with_blank, other, inter in P.blank_rows():
        got = P.tokens_of(ctx, with_blank)
        if inter:
            left, right = P.tokens_of(ctx, other[0]), P.tokens_of(ctx, other[1])
            ok = isinstance(got, list) and isinstance(left, list) and isinstance(right, list) and len(got) == len(left) + len(right) + 1 \
                and got[:len(left)] == left and got[len(left) + 1:] == right \
                and got[len(left)][1:] == (consts['TOK_TYPE_OP_IN'], consts['TOK_SUBTYPE_INTERSECT'])
            want = 'the tokens of both sides with one intersection operator between them'
        else:
            ref = P.tokens_of(ctx, other)
            ok = got == ref and isinstance(got, list)
            want = f'the tokens of {other!r} (the blank dropped)'
        n += 1
        ctx.expect(ok, anchor, f'blank in {with_blank!r}', f'{with_blank!r} is tokenized as {got!r}, expected {want}')
    ctx.floor(100, 'contexts of a blank')


LITERAL_WITNESSES = [
    # formula text, the operands it must yield: (text, sub-type)
    ('="a  b"', [('a  b', 'text')]),
    ('="line1\nline2"&"x\ty"', [('line1\nline2', 'text'), ('x\ty', 'text')]),
    ('="say ""hi"""', [('say "hi"', 'text')]),
    ('=" "&"  "', [(' ', 'text'), ('  ', 'text')]),
    ("='Q1  totals'!$B$2+1", [('Q1  totals!$B$2', 'range'), ('1', 'number')]),
    ('=IF(A1>=1,"y, z",":x")', [('A1', 'range'), ('1', 'number'), ('y, z', 'text'), (':x', 'text')]),
    ('=  "k"  ', [('k', 'text')]),
    ('="@"', [('@', 'text')]), ('="@home"', [('@home', 'text')]), ('=A1&"@example.com"', [('A1', 'range'), ('@example.com', 'text')]), ('="@@"', [('@@', 'text')]),
    ('="_xlfn.CONCAT(A1)"&"a _XLFN.b"', [('_xlfn.CONCAT(A1)', 'text'), ('a _XLFN.b', 'text')]), ('="=1+1"', [('=1+1', 'text')]), ('="+1"&"-x"', [('+1', 'text'), ('-x', 'text')]),
    ('="x""""y"&""""""', [('x""y', 'text'), ('""', 'text')]),
]


def rule_10(ctx):
    """Witness formulas through FormulaParser.tokenize (the text the parser hands to the tokenizer, and the tokenizer itself, by
    constant propagation): every string literal keeps its exact characters, a quoted sheet name its blanks."""
    pm = ctx.mod('parser')
    fn = pm.func('FormulaParser.tokenize')
    consts = _tok_consts(ctx)
    for text, want in LITERAL_WITNESSES:
        it = Interp(ctx.a, pm, {'p': Rec(cls='pkg:parser:FormulaParser'), 'f': text}, inline_pkg=True)
        out = it.run([ast.parse('return p.tokenize(f)').body[0]])
        if out.end != 'return' or not isinstance(out.value, list):
            if out.end == 'raise':
                ctx.bad(fn, f'tokens of the witness {text!r}', f'tokenizing {text!r} raises {out.value!r}')
                continue
            raise Unmodelled(f'FormulaParser.tokenize on {text!r} ends in {out.end}')
        got = [(t.f.get('tvalue'), t.f.get('tsubtype')) for t in out.value
               if isinstance(t, Rec) and t.f.get('ttype') == consts['TOK_TYPE_OPERAND']]
        ctx.expect(got == want, fn, f'operands of the witness {text!r}',
                   f'{text!r} is tokenized into the operands {got!r}, expected {want!r}: string literals keep their exact characters '
                   '(blanks, tabs, line breaks; a doubled quote stands for one quote), references keep their sheet name')
        # the value a text operand evaluates to is the token text, character for character
        from . import corelemma
        am = ctx.mod('ast_nodes')
        for t in out.value:
            if isinstance(t, Rec) and t.f.get('ttype') == consts['TOK_TYPE_OPERAND'] and t.f.get('tsubtype') == consts['TOK_SUBTYPE_TEXT']:
                mk = Interp(ctx.a, am, {}, inline_pkg=True)
                node = corelemma.build_node(mk, 'OperandNode', t)
                ev = Interp(ctx.a, am, {'node': node, 'context': Rec(cls='pkg:ast_nodes:EvalContext', ref='S!A1', sheet='S', refsheet='S')},
                            inline_pkg=True)
                res = ev.run([ast.parse('return node.eval(context)').body[0]])
                val = res.value.f.get('value') if res.end == 'return' and isinstance(res.value, Rec) else f'<{res.end} {res.value!r}>'
                ctx.expect(val == t.f.get('tvalue') and res.value.f.get('cls', '').endswith(':Text'), am.func('OperandNode.eval'),
                           f'value of the text constant {t.f.get("tvalue")!r}',
                           f'the text constant with the characters {t.f.get("tvalue")!r} evaluates to {val!r}: the operand node must hand the '
                           'token text on unchanged (quotes were already unescaped by the tokenizer)')
    ctx.floor(len(LITERAL_WITNESSES), 'literal witnesses')


SEQUENCE = [
    # calls of the public parser API made one after the other in one process; ('tokenize_range', f) uses the public switch that
    # splits ranges at the colon
    ('parse', '=SUM(A1:B2)'), ('parse', '=A1:A3+B1:B3'), ('tokenize_range', '=A1:B2'), ('parse', '=SUM(A1:B2)'), ('parse', '=$B:$D'),
    ('parse', '="a:b"&A1'), ('tokenize_range', "='My Sheet'!A1:B2+1"), ('parse', "=SUM('My Sheet'!A1:B2,3)"), ('parse', '=A1:A3+B1:B3'),
    ('parse', '=1.5E+3+A1'), ('parse', '=IF(A1>0,"y",-A1)'), ('parse', '=SUM(A1:B2)'),
]


def rule_11(ctx):
    """Calls of the parser do not influence each other: a sequence of FormulaParser.parse / tokenize calls - including the public
    tokenize_range switch - made in ONE world gives, call by call, what the same call gives in a world of its own."""
    from . import parsetables as P
    from xlsa.guards import World
    anchor = ctx.mod('parser').func('FormulaParser.parse')
    models = P.operator_models(ctx)
    shared = World()
    for i, (kind, formula) in enumerate(SEQUENCE):
        if kind == 'parse':
            alone = P.parse_tree(ctx, formula, models)
            got = P.parse_tree(ctx, formula, models, world=shared)
        else:
            alone = P.tokens_of(ctx, formula, tokenize_range=True)
            got = P.tokens_of(ctx, formula, world=shared, tokenize_range=True)
        ctx.expect(got == alone, anchor, f'call {i + 1} of the sequence: {kind} {formula}',
                   f'{kind}({formula!r}) gives {got!r} as call {i + 1} of a sequence of parser calls in one process and {alone!r} on its own: '
                   'parsing one formula must not change how the next one is parsed')
    ctx.floor(len(SEQUENCE), 'parser calls')


MODEL_TWINS = [
    # formulas that differ only in what KIND of token a text is, side by side in one model
    '=B1', '="B1"', '=1', '="1"', '=TRUE', '="TRUE"', '=#N/A', '="#N/A"', '=SUM("1",2)', '=SUM(1,2)', '=A1&"1"', '= A1& 1', '=A1&1', '=rate', '="rate"',
    '=IF(A1="rate",rate,0)', '=LEN("total")+total', '="Yes"', '=Yes', '=SUM(A1:B1)', '="SUM(A1:B1)"', '=A1:B1', '="A1:B1"', "='Data'!A1", '="\'Data\'!A1"',
    '=-1', '="-1"', '=1E+3', '="1E+3"', '=A1+B1', '=A1 +B1', '="A1+B1"', '=F(1)', '=F("1")', '=F(TRUE)', '=F("TRUE")',
]


def rule_12(ctx):
    """The tree a compiled model holds for a cell is the tree of that cell's own text: a workbook (dict reader, and the reader path
    with defined names) holding formulas that differ only in the kind of one token - a reference and the same characters in
    quotes, a number / boolean / error literal and its quoted form, a defined name and a text literal spelt like it, the same
    tokens with other blanks - compiled by Model.build_code as written; every cell's tree read back and compared with the tree
    of the same text parsed on its own with the same name table."""
    from . import parsetables as P
    from . import workbook as W
    models = P.operator_models(ctx)
    anchor = ctx.mod('model').func('Model.build_code')
    names = {'rate': 'Data!$A$2', 'total': 'Data!$A$3', 'Yes': 'Data!$Z$9'}
    resolved = {'rate': 'Data!A2', 'total': 'Data!A3', 'Yes': 'Data!Z9'}
    n = 0
    for label, order in (('in written order', list(MODEL_TWINS)), ('in reverse order', list(reversed(MODEL_TWINS)))):
        sheet = {'A1': 4, 'A2': 0.5, 'A3': 'Gross', 'B1': 7, 'Z9': 1}
        addr = {}
        for i, f in enumerate(order, start=1):
            sheet[f'F{i}'] = f
            addr[f] = f'Data!F{i}'
        wb = W.Workbook(ctx, sheets={'Data': sheet}, names=names)
        cells = wb.model.f.get('cells')
        for f in order:
            cell = cells.get(addr[f]) if isinstance(cells, dict) else None
            formula = cell.f.get('formula') if isinstance(cell, Rec) else None
            node = formula.f.get('ast') if isinstance(formula, Rec) else None
            if not isinstance(node, Rec):
                raise Unmodelled(f'the compiled cell {addr[f]} holds no tree for {f!r}')
            got = P.tree_of_node(ctx, node, models, wb.world)
            want = P.parse_tree(ctx, f, models, names=resolved)
            n += 1
            ctx.expect(got == want, anchor, f'tree of {f} in a model holding its twins ({label})',
                       f'the compiled model holds the tree {got!r} for the cell with the text {f!r}; that text parsed on its own (names {resolved}) is {want!r}: '
                       'one node per written construct - a quoted text is a text whatever else the workbook holds')
    # the hand-read kinds of the decisive pairs (the comparison above would also pass if both sides were wrong alike)
    for f, want in (('="B1"', 'B1'), ('=B1', ('ref', 'B1')), ('="1"', '1'), ('=1', 1), ('="TRUE"', 'TRUE'), ('=TRUE', True), ('="rate"', 'rate'),
                    ('=rate', ('ref', 'Data!A2')), ('="Yes"', 'Yes'), ('=IF(A1="rate",rate,0)', ('call', 'IF', ('op', '=', ('ref', 'A1'), 'rate'), ('ref', 'Data!A2'), 0))):
        got = P.parse_tree(ctx, f, models, names=resolved)
        n += 1
        ctx.expect(got == P.refify(want) or got == want, anchor, f'kind of every token of {f} with a name table',
                   f'{f!r} parsed with the names {resolved} is {got!r}, expected {want!r}')
    ctx.floor(2 * len(MODEL_TWINS) + 10, 'model trees')


RULES = [
    ('C02.1', 'string-literal content is opaque to syntactic decisions', rule_1),
    ('C02.2', 'bounded single-character reads in the tokenizer', rule_2),
    ('C02.3', 'token kinds produced = consumed', rule_3),
    ('C02.4', 'error-literal tables agree', rule_4),
    ('C02.5', 'tokenizer state blocks first; string content verbatim', rule_5),
    ('C02.6', 'formula tokenised on construction', rule_6),
    ('C02.7', 'leading "=", blanks, "@" are removed', rule_7),
    ('C02.8', 'white-space filter decision table (blank vs intersection operator)', rule_8),
    ('C02.9', 'operator tree shape (precedence relation, pop table, operand order, prefix/infix switch; shared with C01)', rule_9),
    ('C02.10', 'literal text reaches the token stream unchanged (witness formulas)', rule_10),
    ('C02.11', 'parser calls made one after the other in one process do not influence each other', rule_11),
    ('C02.12', 'the tree a compiled model holds for a cell is the tree of the cell\'s own text (twins side by side, defined names)', rule_12),
]
