"""C16 - math and rounding functions (structural part)."""
import ast
import math as _math

from xlsa import Unmodelled, AnchorMissing
from xlsa.consteval import Ref, Obj, Unfoldable
from xlsa.guards import Interp, Rec, PyModel, Opaque
from xlsa.load import walk_local, names_in, dotted
from xlsa import flow
from .common import func_params, value_returns, last_return, XLERR, XLT, raise_class, is_excel_error_ref
from . import c05

PROPERTY = 'C16'
EXPLANATION = (
    'Decided from source, mostly by interpreting the functions as the evaluator calls them with decimal arithmetic folded: '
    '(C16.1) each restricted function called as the evaluator calls it (registered object with its private decorators; '
    'numpy modelled with IEEE results) at the critical points of its domain: outside gives an Excel error value - not NaN, '
    'infinity or a Python exception - inside is accepted; MOD sign table and zero divisor, POWER overflow / 0^negative '
    '(known finding F29); (C16.2) rounding directions on values: ROUND half away from zero, ROUNDUP away from zero, '
    'ROUNDDOWN toward zero, INT toward minus infinity at half-way and near points on both sides of zero for 1, 0, -1 '
    'digits; _round itself on witnesses (shortest decimal form of the float, requested mode and digits, process-wide '
    'decimal context untouched); truncation of numbers toward zero, TRUNC and EVEN tables through the registered wrappers; '
    '(C16.3) TRUNC / FLOOR / CEILING and the ROUND family on arguments whose binary form is a hair off the decimal one give'
    ' the decimal result (known finding F30 for TRUNC, FLOOR, CEILING); (C16.4) ATAN2(x, y) hands y to the first parameter '
    'of arctan2; (C16.5) the rounding mode is set only inside decimal.localcontext(); (C16.6) ROUND/ROUNDUP/ROUNDDOWN/INT '
    'for large magnitudes and many digits (no Python-level exception) and POWER with negative bases and whole-valued '
    'exponents however stored.'
    ' (C16.7) 26 exact and 50 reference rows (4 ulp) at large magnitudes, thousands of turns and underflowing arguments, one construct per row; sequences of rounding calls in one process, also after calls that fail.')
NOT_DECIDED = 'agreement with IEEE/decimal reference values (numeric)'
TRUSTED = ["numpy's floating point error state: which faults (invalid, divide, over, under) a unary function reports under errstate(... = 'raise')", 'argument conventions of numpy.arctan2 and of the decimal rounding modes']

BIG = 1.0e300


def _reg(ctx, name):
    for f in ctx.a.registry:
        if f.name == name:
            return f
    raise AnchorMissing(f'registered function {name}')


LIB_OPAQUE = ['ext:numpy.arccos', 'ext:numpy.arccosh', 'ext:numpy.arcsin', 'ext:numpy.arcsinh', 'ext:numpy.arctan',
              'ext:numpy.arctan2', 'ext:numpy.cos', 'ext:numpy.cosh', 'ext:numpy.exp', 'ext:numpy.log10', 'ext:numpy.power',
              'ext:numpy.sign', 'ext:numpy.sin', 'ext:numpy.tan', 'ext:numpy.degrees', 'ext:numpy.radians',
              'ext:math.log', 'ext:math.sqrt', 'ext:math.factorial', 'ext:scipy.special.factorial2', 'ext:math.exp',
              'ext:math.log10', 'ext:math.acos', 'ext:math.asin', 'ext:math.cosh']


def _models():
    m = {k: (lambda *a, **kw: Opaque('lib')) for k in LIB_OPAQUE}
    m['ext:math.ceil'] = _math.ceil
    m['ext:math.floor'] = _math.floor
    m['ext:math.trunc'] = _math.trunc
    return m


# function -> (parameter index, [(value, must_raise)], failing-input text)
DOMAINS = {
    'SQRT': [(0, [(-1, True), (-0.5, True), (-1e-300, True), (0, False), (0.5, False), (4, False)])],
    'SQRTPI': [(0, [(-1, True), (-0.5, True), (0, False), (2, False)])],
    'FACT': [(0, [(-1, True), (-0.5, True), (-1e-300, True), (0, False), (0.5, False), (5, False)])],
    'FACTDOUBLE': [(0, [(-2, True), (0, False), (5, False)])],
    'ASIN': [(0, [(-1.5, True), (-1.0000001, True), (-1, False), (0, False), (1, False), (1.0000001, True), (1.5, True)])],
    'ACOS': [(0, [(-1.5, True), (-1, False), (0, False), (1, False), (1.5, True), (2, True)])],
    'ACOSH': [(0, [(0, True), (0.5, True), (0.9999999, True), (1, False), (1.5, False)])],
    'LN': [(0, [(-1, True), (0, True), (1e-300, False), (1, False)])],
    'LOG10': [(0, [(-1, True), (0, True), (1e-300, False), (10, False)])],
    'LOG': [(0, [(-1, True), (0, True), (8, False)])],
    'EXP': [(0, [(0, False), (1, False), (BIG, True)])],
    'COSH': [(0, [(0, False), (BIG, True)])],
}
FAILS = {
    'LN': 'LN(0) raises ValueError', 'LOG10': 'LOG10(0) is -inf, LOG10(-1) is NaN', 'LOG': 'LOG(0) raises ValueError',
    'ACOS': 'ACOS(2) is NaN', 'EXP': 'EXP(1000) is inf', 'COSH': 'COSH(1000) is inf',
}


def rule_1(ctx):
    """Domain guards, decided on values: each function as the evaluator calls it (the registered object - wrapper, private
    decorators, body; numpy on numbers modelled with IEEE results) at the critical points of its domain: an argument outside the
    domain gives an Excel error value (not NaN, not infinity, not a Python exception), an argument inside is accepted."""
    import math as _m
    from . import values as V
    models = V.numpy_models()

    def outcome(name, args):
        out = V.call(ctx, name, [V.num(a) for a in args], models=models)
        if out.end == 'raise':
            return 'python exception ' + (out.value.ref.rpartition(':')[2] if isinstance(out.value, Ref) else repr(out.value))
        got = V.norm(out.value)
        if isinstance(got, tuple) and got and got[0] in ('error', 'error-class'):
            return 'excel error'
        val = got[1] if isinstance(got, tuple) and len(got) == 2 else got
        if isinstance(val, float) and (_m.isnan(val) or _m.isinf(val)):
            return 'NaN / infinity'
        if isinstance(val, complex):
            return 'a complex number'
        return 'value'
    for name, specs in DOMAINS.items():
        f = _reg(ctx, name)
        fn = f.node
        nparams = len([p for p in f.params if p.default is None])
        for pidx, points in specs:
            wrong_in, wrong_out = [], []
            for val, must_raise in points:
                args = [2.0] * max(nparams, pidx + 1)
                args[pidx] = val
                res = outcome(name, args)
                if must_raise and res != 'excel error':
                    wrong_out.append(f'{val} -> {res}')
                if not must_raise and res != 'value':
                    wrong_in.append(f'{val} -> {res}')
            ctx.expect(not wrong_out, fn, f'{name}: arguments outside the domain give an Excel error',
                       f'{name}({", ".join(wrong_out)}) is outside the domain but no guard raises an Excel error before the '
                       f'library call: {FAILS.get(name, "the result is NaN/inf or a Python exception")}')
            ctx.expect(not wrong_in, fn, f'{name}: arguments inside the domain are accepted',
                       f'{name}({", ".join(wrong_in)}) is inside the domain but is rejected')
    # MOD and POWER on the numbers
    f = _reg(ctx, 'MOD')
    res = [outcome('MOD', [5, 0]), outcome('MOD', [-2.5, 0.0])]
    ctx.expect(all(r == 'excel error' for r in res), f.node, 'MOD: zero divisor gives #DIV/0!', f'MOD(n, 0) is not guarded: it ends in {res}')
    wrong = []
    for a, b, want in ((7, 3, 1), (-7, 3, 2), (7, -3, -2), (-7, -3, -1), (6, -3, 0), (-6, -3, 0), (0, -5, 0), (7.5, 2, 1.5), (7.5, -2.5, 0.0), (5, 7, 5), (-5, 7, 2)):
        out = V.call(ctx, 'MOD', [V.num(a), V.num(b)], models=models)
        got = V.norm(out.value) if out.end == 'return' else (out.end, V.norm(out.value))
        val = got[1] if isinstance(got, tuple) and len(got) == 2 and got[0] == 'Number' else got
        if not (isinstance(val, (int, float)) and not isinstance(val, bool) and abs(val - want) < 1e-12):
            wrong.append(f'MOD({a},{b}) = {got!r} instead of {want}')
    ctx.expect(not wrong, f.node, 'MOD = number % divisor (sign of the divisor)', '; '.join(wrong[:4]))
    f = _reg(ctx, 'POWER')
    res = {f'POWER({a},{b})': outcome('POWER', [a, b]) for a, b in ((10.5, 400), (0, -1), (0.0, -2.5))}
    ctx.expect(all(r == 'excel error' for r in res.values()), f.node, 'POWER: overflow / 0^negative give an Excel error',
               f'POWER has neither a guard nor a handler: {res} (POWER(10.5,400) raises OverflowError, POWER(0,-1) ZeroDivisionError)')
    ctx.floor(26, 'domain obligations')


MODES = {'ROUND': 'ROUND_HALF_UP', 'ROUNDUP': 'ROUND_UP', 'ROUNDDOWN': 'ROUND_DOWN'}


def rule_2(ctx):
    """Rounding directions, decided on values (the rounding family as the evaluator calls it; decimal arithmetic folded): at the
    half-way and near-half-way points on both sides of zero ROUND goes away from zero, ROUNDUP away from zero, ROUNDDOWN toward
    zero, INT toward minus infinity - at 0, 1 and -1 digits."""
    from . import values as V
    mm = ctx.mod('xlfunctions.math')
    table = {
        'ROUND': [((1.5, 0), 2.0), ((-1.5, 0), -2.0), ((2.5, 0), 3.0), ((-2.5, 0), -3.0), ((1.4, 0), 1.0), ((-1.4, 0), -1.0), ((0.25, 1), 0.3),
                  ((-0.25, 1), -0.3), ((15, -1), 20.0), ((-15, -1), -20.0), ((14.9, -1), 10.0), ((0, 0), 0.0)],
        'ROUNDUP': [((1.1, 0), 2.0), ((-1.1, 0), -2.0), ((1.0, 0), 1.0), ((0.11, 1), 0.2), ((-0.11, 1), -0.2), ((11, -1), 20.0), ((-11, -1), -20.0), ((0, 0), 0.0)],
        'ROUNDDOWN': [((1.9, 0), 1.0), ((-1.9, 0), -1.0), ((0.19, 1), 0.1), ((-0.19, 1), -0.1), ((19, -1), 10.0), ((-19, -1), -10.0), ((0, 0), 0.0)],
        'INT': [((1.5,), 1.0), ((-1.5,), -2.0), ((-0.000000001,), -1.0), ((0,), 0.0), ((2,), 2.0), ((-2,), -2.0), ((0.999,), 0.0)],
    }
    for name, rows in table.items():
        f = _reg(ctx, name)
        for args, want in rows:
            out = V.call(ctx, name, [V.num(a) for a in args])
            got = V.norm(out.value) if out.end == 'return' else (out.end, V.norm(out.value))
            if isinstance(got, tuple) and got and got[0] == 'Number':
                got = got[1]
            ctx.expect(isinstance(got, (int, float)) and not isinstance(got, bool) and got == want, f.node, f'{name}{args!r} rounds to {want}',
                       f'{name}{args!r} gives {got!r}, expected {want!r} (ROUND: half away from zero; ROUNDUP: away from zero; ROUNDDOWN: toward zero; '
                       'INT: toward minus infinity)')
    # _round itself, folded through the decimal module: shortest decimal representation of the float, the requested mode, the
    # digit count, and the process-wide decimal context untouched afterwards
    import decimal as _dec
    rf = mm.funcs.get('_round') or _reg(ctx, 'ROUND').node
    before = (_dec.getcontext().rounding, _dec.getcontext().prec)
    for args, want in (((2.675, 2, 'ROUND_HALF_UP'), 2.68), ((2.5, 0, 'ROUND_HALF_UP'), 3.0), ((-2.5, 0, 'ROUND_HALF_UP'), -3.0),
                       ((-2.5, 0, 'ROUND_DOWN'), -2.0), ((1.11, 1, 'ROUND_UP'), 1.2), ((-1.11, 1, 'ROUND_UP'), -1.2), ((1234.5, -2, 'ROUND_HALF_UP'), 1200.0),
                       ((0.125, 2, 'ROUND_HALF_UP'), 0.13), ((1.005, 2.0, 'ROUND_HALF_UP'), 1.01)):
        it = Interp(ctx.a, mm, {'a0': args[0], 'a1': args[1], 'a2': args[2]}, inline_pkg=True)
        try:
            out = it.run([ast.parse('return _round(a0, a1, a2)').body[0]])
        finally:
            after = (_dec.getcontext().rounding, _dec.getcontext().prec)
            _dec.getcontext().rounding, _dec.getcontext().prec = before
        got = out.value if out.end == 'return' else f'<{out.end} {out.value!r}>'
        ctx.expect(got == want and isinstance(got, float), rf, f'_round{args!r}',
                   f'_round{args!r} gives {got!r}, expected {want!r}: the float enters decimal through its shortest representation str(x) '
                   '(2.675 is 2.675, not 2.67499999...), is rounded with the requested mode to the requested digits and comes back as float')
        ctx.expect(after == before, rf, f'_round{args!r} leaves the process-wide decimal context alone',
                   f'after _round the global decimal context is {after}, before it was {before}: the rounding mode must be set on a local context')
    # truncation of a number goes toward zero; TRUNC and EVEN as the evaluator calls them
    fm = ctx.mod('xlfunctions.func_xltypes')
    import math as _pm
    for x, want in ((-1.5, -1), (-0.5, 0), (0.5, 0), (1.5, 1), (-2.0, -2)):
        it = Interp(ctx.a, ctx.mod('xlfunctions.math'), {'n': Rec(cls=XLT + 'Number', value=x)}, inline_pkg=True)
        out = it.run(ast.parse('return math.trunc(n)').body)
        got = V.norm(out.value) if out.end == 'return' else (out.end, V.norm(out.value))
        val = got[1] if isinstance(got, tuple) and len(got) == 2 and got[0] == 'Number' else got
        ctx.expect(val == want and not isinstance(val, bool), fm.cls('Number'), f'Number({x}).__trunc__()',
                   f'truncating {x} yields {got!r}, expected {want} (toward zero): TRUNC of a negative number rounds the wrong way')
    f = _reg(ctx, 'TRUNC')
    for args, want in (((8.9,), 8.0), ((-8.9,), -8.0), ((-0.5,), 0.0), ((12.75, 1), 12.7), ((-12.75, 1), -12.7), ((1234.5, -2), 1200.0)):
        out = V.call(ctx, 'TRUNC', [V.num(a) for a in args])
        got = V.norm(out.value) if out.end == 'return' else (out.end, V.norm(out.value))
        val = got[1] if isinstance(got, tuple) and len(got) == 2 and got[0] == 'Number' else got
        ctx.expect(isinstance(val, (int, float)) and not isinstance(val, bool) and abs(val - want) < 1e-12, f.node, f'TRUNC{args!r} truncates toward zero',
                   f'TRUNC{args!r} gives {got!r}, expected {want}')
    # EVEN at the critical points around even integers
    f = _reg(ctx, 'EVEN')
    for x, want in ((-3, -4), (-2.5, -4), (-2, -2), (-0.5, -2), (0, 0), (0.5, 2), (1, 2), (2, 2), (2.5, 4), (3, 4)):
        out = V.call(ctx, 'EVEN', [V.num(x)])
        got = V.norm(out.value) if out.end == 'return' else (out.end, V.norm(out.value))
        val = got[1] if isinstance(got, tuple) and len(got) == 2 and got[0] == 'Number' else got
        ctx.expect(val == want and not isinstance(val, bool), f.node, f'EVEN({x})', f'EVEN({x}) yields {got!r}, expected {want}')
    ctx.floor(40, 'rounding-direction obligations')


def rule_3(ctx):
    """TRUNC, FLOOR, CEILING (and the ROUND family) on arguments whose binary representation is a hair off the decimal one: the
    result is that of decimal arithmetic on the shortest decimal form of the float, not of scaling / dividing in binary."""
    from . import values as V
    rows = {
        'TRUNC': [((1.13, 2), 1.13), ((2.675, 2), 2.67), ((-1.13, 2), -1.13), ((8.9,), 8.0), ((-8.9,), -8.0), ((1.15, 1), 1.1), ((0.29, 2), 0.29)],
        'FLOOR': [((0.3, 0.1), 0.3), ((2.5, 1), 2.0), ((0.7, 0.1), 0.7), ((1.5, 0.5), 1.5), ((10, 3), 9.0)],
        'CEILING': [((2.1, 0.1), 2.1), ((2.5, 1), 3.0), ((0.3, 0.1), 0.3), ((1.5, 0.5), 1.5), ((10, 3), 12.0)],
    }
    for name, cases in rows.items():
        f = _reg(ctx, name)
        wrong = []
        for args, want in cases:
            out = V.call(ctx, name, [V.num(a) for a in args])
            got = V.norm(out.value) if out.end == 'return' else (out.end, V.norm(out.value))
            if isinstance(got, tuple) and got and got[0] == 'Number':
                got = got[1]
            if not (isinstance(got, (int, float)) and not isinstance(got, bool) and abs(got - want) < 1e-12):
                wrong.append(f'{name}{args!r} = {got!r} instead of {want!r}')
        fails = {'TRUNC': 'TRUNC(1.13,2) = 1.12', 'CEILING': 'CEILING(2.1,0.1) = 2.2', 'FLOOR': 'FLOOR(0.3,0.1) = 0.2'}[name]
        ctx.expect(not wrong, f.node, f'{name} rounds in decimal, not on a binary-scaled value',
                   f'{name} scales/divides its argument in binary floating point before floor/ceil/trunc: ' + '; '.join(wrong[:3]) + f' ({fails})')
    for name, cases in (('ROUND', [((2.675, 2), 2.68), ((1.005, 2), 1.01), ((0.285, 2), 0.29)]), ('ROUNDUP', [((1.1, 1), 1.1), ((2.3, 1), 2.3)]),
                        ('ROUNDDOWN', [((1.1, 1), 1.1), ((2.3, 1), 2.3), ((0.29, 2), 0.29)]), ('INT', [((0.29 * 100,), 28.0), ((3.0,), 3.0)])):
        f = _reg(ctx, name)
        wrong = []
        for args, want in cases:
            out = V.call(ctx, name, [V.num(a) for a in args])
            got = V.norm(out.value) if out.end == 'return' else (out.end, V.norm(out.value))
            if isinstance(got, tuple) and got and got[0] == 'Number':
                got = got[1]
            if not (isinstance(got, (int, float)) and not isinstance(got, bool) and got == want):
                wrong.append(f'{name}{args!r} = {got!r} instead of {want!r}')
        ctx.expect(not wrong, f.node, f'{name} delegates to the decimal _round', f'{name} does not round the shortest decimal form of its argument: ' + '; '.join(wrong))
    ctx.floor(7, 'rounding family')


def rule_4(ctx):
    f = _reg(ctx, 'ATAN2')
    fn = f.node
    p = func_params(fn)
    calls = [c for c in flow.calls_in(fn) if ctx.res.resolve(c.func, f.module) in ('ext:numpy.arctan2', 'ext:math.atan2')]
    ok = len(calls) == 1 and len(calls[0].args) == 2
    if ok:
        deps = flow.Deps(fn)
        a0 = deps.params_reaching(calls[0].args[0])
        a1 = deps.params_reaching(calls[0].args[1])
        ok = a0 == {p[1]} and a1 == {p[0]}
    ctx.expect(ok, fn, 'ATAN2(x, y) = arctan2(y, x)',
               f'arctan2 receives ({ast.unparse(calls[0].args[0]) if calls else "?"}, {ast.unparse(calls[0].args[1]) if calls else "?"}): '
               'its first parameter is the y-coordinate, which is the SECOND argument of ATAN2 (ATAN2(1,2) must be 1.1071)')
    ctx.floor(1, 'ATAN2 binding')


def rule_5(ctx):
    c05.rule_4(ctx)


def _np_power(interp, a, b):
    """numpy.power on two value instances applies the class's own ** (object arrays): ExcelType.__pow__ / __rpow__."""
    return interp._binop(ast.Pow(), a, b)


_np_power.wants_interp = True


def rule_6(ctx):
    """The rounding family and POWER as the evaluator calls them (registered wrapper, casts, body; decimal arithmetic folded) on
    witness arguments: half away from zero at every digit count, also for large magnitudes / many digits; powers of negative
    bases with whole-valued exponents however the exponent is stored."""
    from . import values as V
    table = [
        ('ROUND', [2.5, 0], 3.0), ('ROUND', [-2.5, 0], -3.0), ('ROUND', [0.5, 0], 1.0), ('ROUND', [1.005, 2], 1.01), ('ROUND', [2.675, 2], 2.68),
        ('ROUND', [1234.5678, -2], 1200.0), ('ROUND', [123456.789, 10], 123456.789), ('ROUND', [123456789012.345, 4], 123456789012.345),
        ('ROUND', [1e15, 0], 1e15), ('ROUNDUP', [1234567.125, 9], 1234567.125), ('ROUNDUP', [1.11, 1], 1.2), ('ROUNDUP', [-1.11, 1], -1.2),
        ('ROUNDDOWN', [1.19, 1], 1.1), ('ROUNDDOWN', [-1.19, 1], -1.1), ('ROUNDDOWN', [31415.92654, -2], 31400.0),
        ('INT', [2.5], 2.0), ('INT', [-2.5], -3.0), ('INT', [1e20], 1e20), ('INT', [-0.5], -1.0),
    ]
    for name, args, want in table:
        f = V.registered(ctx, name)
        out = V.call(ctx, name, [V.num(a) for a in args])
        got = V.norm(out.value) if out.end == 'return' else f'<{out.end} {out.value!r}>'
        if isinstance(got, tuple) and got and got[0] == 'Number':
            got = got[1]
        ok = isinstance(got, (int, float)) and not isinstance(got, bool) and got == want
        ctx.expect(ok, f.node, f'{name}({", ".join(map(str, args))})',
                   f'{name}({", ".join(map(str, args))}) gives {got!r}, expected {want!r}: decimal rounding half away from zero (INT: toward minus '
                   'infinity) for every number and digit count, without a Python-level exception for large magnitudes or many digits')
    pw = V.registered(ctx, 'POWER')
    for args, want in (([-2, 2], 4), ([-2, 2.0], 4.0), ([-8, 3.0], -512.0), ([-2.0, 4 / 2], 4.0), ([2, 10], 1024), ([9, 0.5], 3.0), ([2, -2], 0.25)):
        out = V.call(ctx, 'POWER', [V.num(a) for a in args], models={'ext:numpy.power': _np_power})
        got = V.norm(out.value) if out.end == 'return' else f'<{out.end} {out.value!r}>'
        if isinstance(got, tuple) and got and got[0] == 'Number':
            got = got[1]
        ok = isinstance(got, (int, float)) and not isinstance(got, bool) and abs(got - want) < 1e-12
        ctx.expect(ok, pw.node, f'POWER({args[0]!r}, {args[1]!r})',
                   f'POWER({args[0]!r}, {args[1]!r}) gives {got!r}, expected {want!r}: a negative base has a real power for every whole-valued '
                   'exponent, whether it is stored as an integer or as a float')
    ctx.floor(len(table) + 7, 'rounding / power witnesses')


def _ulps(got, want):
    import math
    if got == want:
        return 0.0
    if want == 0 or not math.isfinite(want) or not math.isfinite(got):
        return float('inf')
    return abs(got - want) / math.ulp(want)


def rule_7(ctx):
    """Reference values at witness points away from the textbook ones - large magnitudes, quotients of a billion and more, angles of
    thousands of turns, arguments next to a whole number - one construct per row: each function as the evaluator calls it (the
    registered object; numpy modelled as IEEE arithmetic on Python floats, decimal arithmetic folded) against the exact decimal
    rounding / the correctly rounded reference of Python's math library, to within 4 units in the last place."""
    import math
    from . import values as V
    exact = [
        ('FLOOR', (1234567890.6, 1), 1234567890), ('FLOOR', (1.9999999996, 1), 1), ('FLOOR', (5000000000.7, 2), 5000000000), ('FLOOR', (999999999.9999, 1), 999999999),
        ('FLOOR', (-1234567890.4, 1), -1234567891), ('FLOOR', (123456789.123, 0.5), 123456789.0), ('FLOOR', (2.5, 1), 2), ('FLOOR', (-2.5, -1), -2),
        ('CEILING', (1234567890.4, 1), 1234567891), ('CEILING', (1.0000000004, 1), 2), ('CEILING', (5000000000.2, 2), 5000000002), ('CEILING', (-1234567890.4, 1), -1234567890),
        ('TRUNC', (1234567890.6,), 1234567890), ('TRUNC', (1234567890.678, 2), 1234567890.67), ('EVEN', (1234567891.2,), 1234567892), ('INT', (1234567890.9999,), 1234567890),
        ('MOD', (10000000000.5, 3), 1.5), ('MOD', (-7, 3), 2), ('MOD', (7, -3), -2), ('FACT', (20,), 2432902008176640000), ('FACTDOUBLE', (11,), 10395),
        ('ABS', (-1e300,), 1e300), ('SIGN', (-1e-300,), -1), ('LOG', (8, 2), 3.0), ('ROUND', (1234567890.5, 0), 1234567891), ('ROUNDDOWN', (-1234567890.55, 1), -1234567890.5),
    ]
    close = [('SIN', (x,), math.sin(x)) for x in (1e6, 1e9, 12345.678, -98765.4321, 710.0, 0.5, 3.0, 6.2, 7.0, 100.0, 2 * math.pi, -4e3)]
    close += [('COS', (x,), math.cos(x)) for x in (1e5, 1e9, 12345.678, -98765.4321, 710.0, 0.5, 3.0, 6.3, 44.0, 1e4)]
    close += [('TAN', (x,), math.tan(x)) for x in (12345.678, 1e6, -98765.4321, 0.5, 3.0, 7.0, 1e3)]
    close += [('DEGREES', (1e6,), math.degrees(1e6)), ('RADIANS', (1e6,), math.radians(1e6)), ('ATAN', (1e6,), math.atan(1e6)), ('ACOS', (0.5,), math.acos(0.5)),
              ('ASIN', (-0.25,), math.asin(-0.25)), ('EXP', (10,), math.exp(10)), ('EXP', (-700,), math.exp(-700)), ('EXP', (-1000,), 0.0), ('EXP', (-745,), math.exp(-745)), ('EXP', (-710,), math.exp(-710)),
              ('EXP', (700,), math.exp(700)), ('SIN', (1e-310,), math.sin(1e-310)), ('ATAN', (1e-320,), math.atan(1e-320)), ('LN', (1e10,), math.log(1e10)),
              ('LOG10', (12345.678,), math.log10(12345.678)), ('SQRT', (2,), math.sqrt(2)), ('SQRT', (1e-300,), math.sqrt(1e-300)), ('COSH', (3,), math.cosh(3)),
              ('ASINH', (3,), math.asinh(3)), ('ACOSH', (3,), math.acosh(3)), ('POWER', (2.5, 3.5), 2.5 ** 3.5), ('ATAN2', (1, 2), math.atan2(2, 1)),
              ('ATAN2', (-3, 1e-9), math.atan2(1e-9, -3)), ('LOG', (1e10, 7), math.log(1e10, 7))]
    models = V.numpy_models()
    n = 0
    for name, args, want in exact + close:
        try:
            f = V.registered(ctx, name)
        except Exception:       # noqa: BLE001 - not registered in this tree: nothing to decide
            continue
        out = V.call(ctx, name, [V.num(a) for a in args], models=models)
        got = V.norm(out.value) if out.end == 'return' else f'<{out.end} {V.norm(out.value)!r}>'
        if isinstance(got, tuple) and got and got[0] == 'Number':
            got = got[1]
        is_num = isinstance(got, (int, float)) and not isinstance(got, bool)
        tol = 0 if (name, args, want) in exact else 4
        ok = is_num and _ulps(float(got), float(want)) <= tol
        n += 1
        ctx.expect(ok, f.node, f'{name}({", ".join(map(repr, args))})',
                   f'{name}({", ".join(map(repr, args))}) gives {got!r}, the reference value is {want!r}'
                   + (f' ({_ulps(float(got), float(want)):.3g} units in the last place away)' if is_num else '')
                   + ': the decimal rounding in Excel\'s direction / the correctly rounded IEEE value, for every magnitude')
    # the multiple functions outside their domain: an Excel error value, never a Python exception
    for name, args, want in (('FLOOR', (2.5, 0), '#DIV/0!'), ('FLOOR', (2.5, -1), '#NUM!'), ('CEILING', (2.5, -1), '#NUM!'), ('FLOOR', (-2.5, 1), -3), ('CEILING', (-2.5, 1), -2),
                             ('FLOOR', (-2.5, -1), -2), ('CEILING', (-2.5, -1), -3), ('FLOOR', (0, 5), 0), ('CEILING', (0, 5), 0)):
        f = V.registered(ctx, name)
        out = V.call(ctx, name, [V.num(a) for a in args], models=models)
        got = V.norm(out.value) if out.end == 'return' else f'<{out.end} {V.norm(out.value)!r}>'
        if isinstance(got, tuple) and len(got) == 2 and got[0] == 'error-class':
            from . import workbook as W
            got = ('error', W.error_code(ctx, got[1]))
        ok = got == ('error', want) if isinstance(want, str) else (isinstance(got, tuple) and got[0] == 'Number' and got[1] == want)
        n += 1
        ctx.expect(ok, f.node, f'{name}({", ".join(map(repr, args))})', f'{name}({", ".join(map(repr, args))}) gives {got!r}, expected {want!r}')
    # calls made one after the other in ONE process - also after calls that fail - give what each gives in a process of its own
    from xlsa.guards import World
    seq = [('ROUND', (2.5, 0)), ('ROUNDDOWN', (1e25, 5)), ('ROUND', (2.5, 0)), ('ROUND', (-2.5, 0)), ('ROUND', (1.25, 1)), ('INT', (-1e30,)), ('ROUND', (1.3, 0)),
           ('ROUNDUP', (1e25, 5)), ('ROUND', (0.5, 0)), ('CEILING', (7.3, 0.7)), ('ROUNDUP', (1.11, 1)), ('ROUND', (2.675, 2)), ('ROUNDDOWN', (1.19, 1)), ('ROUND', (1.005, 2)),
           ('CEILING', (1.15, 0.1)), ('TRUNC', (2.675, 2)), ('INT', (-2.5,)), ('ROUND', (-0.5, 0)), ('EVEN', (3.2,)), ('ROUND', (3.5, 0)), ('FLOOR', (2.5, 1)), ('ROUND', (4.5, 0))]
    shared = World()

    def outcome(name, args, world):
        out = V.call(ctx, name, [V.num(a) for a in args], models=models, world=world)
        return V.norm(out.value) if out.end == 'return' else f'<{out.end} {V.norm(out.value)!r}>'
    alone = {}
    for i, (name, args) in enumerate(seq):
        if (name, args) not in alone:
            alone[(name, args)] = outcome(name, args, None)
        got = outcome(name, args, shared)
        n += 1
        ctx.expect(got == alone[(name, args)], V.registered(ctx, name).node, f'call {i + 1} of a sequence in one process: {name}{args!r}',
                   f'{name}{args!r} gives {got!r} as call {i + 1} of a sequence of rounding calls in one process ({", ".join(f"{n_}{a_!r}" for n_, a_ in seq[max(0, i - 3):i])} '
                   f'before it) and {alone[(name, args)]!r} on its own: the rounding direction of one call is no business of the next')
    ctx.floor(99, 'reference rows')


RULES = [
    ('C16.1', 'domain guards at critical points', rule_1),
    ('C16.2', 'rounding directions', rule_2),
    ('C16.3', 'rounding happens in decimal', rule_3),
    ('C16.4', 'ATAN2 argument binding', rule_4),
    ('C16.5', 'local rounding context (shared with C05.4)', rule_5),
    ('C16.6', 'rounding family and POWER on witness arguments through the registered wrapper', rule_6),
    ('C16.7', 'reference values at witness points of large magnitude, row by row', rule_7),
]
