"""Helpers shared by the rule modules."""
import ast
from fractions import Fraction

from xlsa import Unmodelled, AnchorMissing
from xlsa.consteval import Ref, Obj, Unfoldable
from xlsa.load import walk_local, names_in, dotted
from xlsa import flow

# Excel's operator classes (C01 statement): higher binds tighter.
BINARY_CLASSES = {
    '^': 5, '*': 4, '/': 4, '+': 3, '-': 3, '&': 2,
    '=': 1, '<': 1, '>': 1, '<=': 1, '>=': 1, '<>': 1,
}
UNARY_MINUS = 'u-'
PERCENT = '%'
ORACLE_CLASS = dict(BINARY_CLASSES)
ORACLE_CLASS[PERCENT] = 6
ORACLE_CLASS[UNARY_MINUS] = 7

# operator text -> python AST operator class of the function that implements it
PY_BINOP = {'*': ast.Mult, '/': ast.Div, '+': ast.Add, '-': ast.Sub}
PY_CMPOP = {'=': ast.Eq, '<>': ast.NotEq, '<': ast.Lt, '>': ast.Gt, '<=': ast.LtE, '>=': ast.GtE}

XLERR = 'pkg:xlfunctions.xlerrors:'
XLT = 'pkg:xlfunctions.func_xltypes:'


def func_params(fnode):
    a = fnode.args
    out = [x.arg for x in a.posonlyargs + a.args]
    if a.vararg:
        out.append(a.vararg.arg)
    out += [x.arg for x in a.kwonlyargs]
    if a.kwarg:
        out.append(a.kwarg.arg)
    return out


def value_returns(fnode):
    """Return statements that return a value (not bare / None)."""
    out = []
    for r in flow.returns_of(fnode):
        if r.value is None:
            continue
        if isinstance(r.value, ast.Constant) and r.value.value is None:
            continue
        out.append(r)
    return out


def last_return(fnode):
    """The return statement at the end of the function body (fall-through path)."""
    body = fnode.body
    if body and isinstance(body[-1], ast.Return):
        return body[-1]
    return None


class Lin:
    """Rational linear form  c0 + sum(ci * var_i)  for tiny symbolic checks."""

    def __init__(self, const=0, coefs=None):
        self.const = Fraction(const)
        self.coefs = {k: Fraction(v) for k, v in (coefs or {}).items() if v != 0}

    @staticmethod
    def var(name):
        return Lin(0, {name: 1})

    def is_const(self):
        return not self.coefs

    def __add__(self, o):
        c = dict(self.coefs)
        for k, v in o.coefs.items():
            c[k] = c.get(k, 0) + v
        return Lin(self.const + o.const, c)

    def __neg__(self):
        return Lin(-self.const, {k: -v for k, v in self.coefs.items()})

    def __sub__(self, o):
        return self + (-o)

    def scale(self, k):
        return Lin(self.const * k, {n: v * k for n, v in self.coefs.items()})

    def __eq__(self, o):
        return isinstance(o, Lin) and self.const == o.const and self.coefs == o.coefs

    def __hash__(self):
        return hash((self.const, tuple(sorted(self.coefs.items()))))

    def __repr__(self):
        parts = [f'{v}*{k}' for k, v in sorted(self.coefs.items())]
        if self.const or not parts:
            parts.append(str(self.const))
        return ' + '.join(parts)


def linear(node, env, fold=None, transparent_calls=('int', 'float')):
    """Linear form of an expression over the variables in env ({name: Lin}).

    transparent_calls: one-argument calls treated as identity (int(), float() of a value
    that is already the number). Raises Unmodelled when the expression is not linear.
    """
    if isinstance(node, ast.Constant) and isinstance(node.value, (int, float)) \
            and not isinstance(node.value, bool):
        return Lin(Fraction(str(node.value)))
    if isinstance(node, ast.Name):
        if node.id in env:
            return env[node.id]
        if fold is not None:
            try:
                v = fold(node)
                if isinstance(v, (int, float)) and not isinstance(v, bool):
                    return Lin(Fraction(str(v)))
            except Unfoldable:
                pass
        raise Unmodelled(f'non-linear/unknown name {node.id}')
    if isinstance(node, ast.UnaryOp) and isinstance(node.op, ast.USub):
        return -linear(node.operand, env, fold, transparent_calls)
    if isinstance(node, ast.UnaryOp) and isinstance(node.op, ast.UAdd):
        return linear(node.operand, env, fold, transparent_calls)
    if isinstance(node, ast.BinOp):
        if isinstance(node.op, ast.Add):
            return linear(node.left, env, fold, transparent_calls) + \
                linear(node.right, env, fold, transparent_calls)
        if isinstance(node.op, ast.Sub):
            return linear(node.left, env, fold, transparent_calls) - \
                linear(node.right, env, fold, transparent_calls)
        l = linear(node.left, env, fold, transparent_calls)
        r = linear(node.right, env, fold, transparent_calls)
        if isinstance(node.op, ast.Mult):
            if l.is_const():
                return r.scale(l.const)
            if r.is_const():
                return l.scale(r.const)
        if isinstance(node.op, ast.Div) and r.is_const() and r.const != 0:
            return l.scale(1 / r.const)
        if isinstance(node.op, ast.Pow) and l.is_const() and r.is_const():
            return Lin(l.const ** int(r.const)) if r.const.denominator == 1 else _nl(node)
        return _nl(node)
    if isinstance(node, ast.Call) and isinstance(node.func, ast.Name) \
            and node.func.id in transparent_calls and len(node.args) == 1 and not node.keywords:
        return linear(node.args[0], env, fold, transparent_calls)
    if isinstance(node, ast.Attribute) and node.attr == 'value':
        return linear(node.value, env, fold, transparent_calls)
    if fold is not None:
        try:
            v = fold(node)
            if isinstance(v, (int, float)) and not isinstance(v, bool):
                return Lin(Fraction(str(v)))
        except Unfoldable:
            pass
    return _nl(node)


def _nl(node):
    raise Unmodelled(f'not a linear form: {ast.unparse(node)[:60]}')


def const_compares(test, attr, value):
    """Does `test` contain a comparison  <something>.attr == value ?"""
    for n in ast.walk(test):
        if isinstance(n, ast.Compare) and len(n.ops) == 1 and isinstance(n.ops[0], ast.Eq):
            sides = [n.left, n.comparators[0]]
            for x, y in (sides, sides[::-1]):
                if isinstance(x, ast.Attribute) and x.attr == attr \
                        and isinstance(y, ast.Constant) and y.value == value:
                    return True
    return False


def raise_class(ctx, r):
    """Resolved class ref raised by a Raise node, or None."""
    exc = r.exc
    if exc is None:
        return None
    if isinstance(exc, ast.Call):
        exc = exc.func
    return ctx.res.resolve(exc, r._module)


def is_excel_error_ref(ctx, ref):
    if not ref or not ref.startswith('pkg:'):
        return False
    return ctx.res.is_subclass(ref, XLERR + 'ExcelError')
