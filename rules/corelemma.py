"""Lemmas about the evaluation core that several properties rest on (C01, C03, C04, C05, C06, C07, C10, C12, C14).

L1  node state      - formula AST nodes live as long as the model (they are built once by build_code and pickled by
                      persist): whatever an evaluation stores ON a node is still there at the next evaluation and in the
                      persisted file. Every such store is enumerated and classified:
                        * dependent  - the stored value derives from the evaluation context, from operand values or from
                                       a nested evaluation: a later evaluation can observe a result of an earlier one
                        * persisted kind - functions, signatures, lambdas ... cannot be rebuilt by the JSON persistence
L1b operator nodes  - behavioural twin of L1 for OperatorNode: the same node evaluated twice with different operand
                      values must call the operator function with the operand values of THAT evaluation
L3  address per evaluation - a reference node resolves its address against the context of the current evaluation
"""
import ast

from xlsa import Unmodelled, AnchorMissing
from xlsa.consteval import Ref
from xlsa.guards import Interp, Rec, PyModel, Opaque, World
from xlsa.load import walk_local, names_in
from xlsa import flow
from .common import func_params

AN = 'pkg:ast_nodes:'
MUTATORS = {'append', 'add', 'update', 'setdefault', 'extend', 'insert', 'pop', 'clear', 'remove', 'discard', '__setitem__'}


def node_classes(ctx):
    out = []
    base = AN + 'ASTNode'
    for m in ctx.repo.modules.values():
        for qual, cnode in m.classes.items():
            ref = f'pkg:{m.name}:{qual}'
            if ref == base or ctx.res.is_subclass(ref, base):
                out.append(ref)
    if base not in out:
        raise AnchorMissing('ast_nodes.ASTNode')
    return sorted(out)


def eval_reachable(ctx, cref):
    """Methods (module, FunctionDef, owner class ref) reachable from cref.eval through self.<method>(...) calls and
    self.<property> reads, resolved through the MRO of cref."""
    start = ctx.res.class_attr(cref, 'eval')
    if not isinstance(start[1], ast.FunctionDef):
        return []
    seen, out, work = set(), [], [start]
    while work:
        m, fn = work.pop()
        if id(fn) in seen:
            continue
        seen.add(id(fn))
        out.append((m, fn))
        params = func_params(fn)
        me = params[0] if params else 'self'
        for n in walk_local(fn):
            if isinstance(n, ast.Attribute) and isinstance(n.value, ast.Name) and n.value.id == me and isinstance(n.ctx, ast.Load):
                cm, val = ctx.res.class_attr(cref, n.attr)
                if isinstance(val, ast.FunctionDef):
                    work.append((cm, val))
    return out


def _root_self_attr(expr, me):
    """attr when expr is self.attr, self.attr[...], self.attr.x ... ; else None."""
    e = expr
    while isinstance(e, (ast.Subscript, ast.Attribute)):
        if isinstance(e, ast.Attribute) and isinstance(e.value, ast.Name) and e.value.id == me:
            return e.attr
        e = e.value
    return None


def node_state_stores(ctx):
    """Every store that an evaluation-path method of an AST node class performs on the node itself."""
    out = []
    done = set()
    for cref in node_classes(ctx):
        for m, fn in eval_reachable(ctx, cref):
            if id(fn) in done:
                continue
            done.add(id(fn))
            params = func_params(fn)
            if not params:
                continue
            me = params[0]
            others = set(params[1:])
            if fn.args.vararg:
                others.add(fn.args.vararg.arg)
            if fn.args.kwarg:
                others.add(fn.args.kwarg.arg)
            deps = flow.Deps(fn)
            aliases = {me}
            for a in walk_local(fn):
                if isinstance(a, ast.Assign) and isinstance(a.value, ast.Name) and a.value.id == me:
                    aliases.update(t.id for t in a.targets if isinstance(t, ast.Name))

            def record(node, attr, value_exprs, how):
                names = set()
                has_eval_call = False
                unsafe = None
                for v in value_exprs:
                    names |= names_in(v)
                    for x in ast.walk(v):
                        if isinstance(x, ast.Call) and isinstance(x.func, ast.Attribute) and x.func.attr in ('eval', 'eval_cell', 'evaluate'):
                            has_eval_call = True
                closure = deps.closure(names)
                dependent = bool(closure & others) or has_eval_call
                # what kind of object ends up on the node (persistence): follow locals one step
                exprs = list(value_exprs)
                for nm in closure:
                    for a in walk_local(fn):
                        if isinstance(a, ast.Assign) and any(isinstance(t, ast.Name) and t.id == nm for t in a.targets):
                            exprs.append(a.value)
                for v in exprs:
                    for x in ast.walk(v):
                        if isinstance(x, ast.Lambda):
                            unsafe = 'a lambda'
                        elif isinstance(x, ast.Call):
                            r = ctx.res.resolve(x.func, m) if isinstance(x.func, (ast.Name, ast.Attribute)) else None
                            if r and r.startswith(('ext:inspect.', 'ext:functools.partial', 'builtin:open', 'builtin:iter', 'ext:itertools.')):
                                unsafe = f'the result of {r.split(":", 1)[1]}'
                        elif isinstance(x, ast.Attribute) and x.attr == 'namespace':
                            unsafe = unsafe or 'a function taken from the namespace'
                        elif isinstance(x, ast.GeneratorExp):
                            unsafe = 'a generator'
                out.append(dict(node=node, cref=cref, module=m, fn=fn, attr=attr, dependent=dependent, unsafe=unsafe, how=how))

            for n in walk_local(fn):
                if isinstance(n, (ast.Assign, ast.AugAssign, ast.AnnAssign)):
                    targets = n.targets if isinstance(n, ast.Assign) else [n.target]
                    for t in targets:
                        elts = t.elts if isinstance(t, (ast.Tuple, ast.List)) else [t]
                        for e in elts:
                            for al in aliases:
                                attr = _root_self_attr(e, al)
                                if attr and n.value is not None:
                                    record(n, attr, [n.value] + ([e.slice] if isinstance(e, ast.Subscript) else []), 'assignment')
                elif isinstance(n, ast.Call) and isinstance(n.func, ast.Attribute) and n.func.attr in MUTATORS:
                    for al in aliases:
                        attr = _root_self_attr(n.func.value, al)
                        if attr:
                            record(n, attr, list(n.args) + [k.value for k in n.keywords], f'.{n.func.attr}()')
                elif isinstance(n, ast.Call) and isinstance(n.func, ast.Name) and n.func.id == 'setattr' and n.args \
                        and isinstance(n.args[0], ast.Name) and n.args[0].id in aliases:
                    record(n, '<setattr>', n.args[1:], 'setattr')
    return out


def rule_node_state(ctx, only=None, label='formula nodes carry no evaluation-dependent state'):
    """L1 as a rule: no store on a node whose value depends on the evaluation."""
    n = 0
    for s in node_state_stores(ctx):
        short = s['cref'].split(':')[-1]
        if only and short not in only:
            continue
        n += 1
        ctx.expect(not s['dependent'], s['node'], f'{short}: value kept on the node between evaluations',
                   f'{short}.{s["fn"].name} stores a value on the node itself (attribute {s["attr"]}, {s["how"]}) that derives from the '
                   'evaluation context / the operand values of this evaluation. Nodes live as long as the model: the next evaluation '
                   '(other inputs after set_cell_value, another cell sharing the node, another evaluator) can be served the old value')
    classes = node_classes(ctx)
    for cref in classes:
        short = cref.split(':')[-1]
        if only and short not in only:
            continue
        ctx.ok(ctx.res.lookup(cref)[1], f'{short}: evaluation-path methods enumerated')
    return n


# --------------------------------------------------------------------------------------------------------------
# L1b: behavioural twin for operator nodes
# --------------------------------------------------------------------------------------------------------------
class _Cells(PyModel):
    """What the referenced cells hold at the moment; the rule changes it between two evaluations."""

    def __init__(self, **values):
        self.values = dict(values)


def _tok(ctx, tvalue, ttype, tsubtype=''):
    return Rec(cls='pkg:tokenizer:f_token', tvalue=tvalue, ttype=ttype, tsubtype=tsubtype)


def build_node(it, cls, token):
    """Construct a node through its real constructor (so that every attribute the class defines exists)."""
    node = it._construct(AN + cls, [token], {})
    if not isinstance(node, Rec):
        raise Unmodelled(f'construction of {cls}')
    return node


def operator_tables(ctx):
    am = ctx.mod('ast_nodes')
    tables = {}
    for name in ('INFIX_OP_TO_FUNC', 'PREFIX_OP_TO_FUNC', 'POSTFIX_OP_TO_FUNC'):
        if name in am.assigns:
            val = ctx.fold(am.assign(name), am)
            if isinstance(val, dict):
                tables[name] = val
    return tables


def operator_node_twice(ctx, expect_fn):
    """Evaluate (X + 1) * 2, -X, X * Y twice on the SAME nodes with changed cell values; expect_fn(label, first, second,
    want_first, want_second, node) is called per witness. Operator functions are symbolic: ('op', text, args)."""
    am = ctx.mod('ast_nodes')
    tables = operator_tables(ctx)
    models = {}
    for tname, tab in tables.items():
        for text, v in tab.items():
            if isinstance(v, Ref):
                models[v.ref] = (lambda *a, _t=text: ('op', _t) + tuple(a))
    cells = _Cells(X=3, Y=4)
    XLT = 'pkg:xlfunctions.func_xltypes:'
    models[AN + 'RangeNode.eval'] = lambda self_, context: Rec(cls=XLT + 'Number', value=cells.values[self_.get('token').get('tvalue')])
    models[AN + 'OperandNode.eval'] = lambda self_, context: ('lit', self_.get('token').get('tvalue'))
    world = World()
    it = Interp(ctx.a, am, {}, call_models=models, inline_pkg=True, world=world)
    tc = {}
    tm = ctx.mod('tokenizer')
    for k in ('TOK_TYPE_OPERAND', 'TOK_TYPE_OP_IN', 'TOK_TYPE_OP_PRE', 'TOK_SUBTYPE_RANGE', 'TOK_SUBTYPE_NUMBER', 'TOK_SUBTYPE_MATH'):
        cm, val = ctx.res.class_attr('pkg:tokenizer:ExcelParserTokens', k)
        if val is None:
            cm, val = ctx.res.class_attr('pkg:tokenizer:ExcelParser', k)
        if val is None:
            raise AnchorMissing(f'tokenizer constant {k}')
        tc[k] = ctx.fold(val, cm)

    def rng(name):
        return build_node(it, 'RangeNode', _tok(ctx, name, tc['TOK_TYPE_OPERAND'], tc['TOK_SUBTYPE_RANGE']))

    def num(text):
        return build_node(it, 'OperandNode', _tok(ctx, text, tc['TOK_TYPE_OPERAND'], tc['TOK_SUBTYPE_NUMBER']))

    def op(text, left, right, prefix=False):
        node = build_node(it, 'OperatorNode', _tok(ctx, text, tc['TOK_TYPE_OP_PRE'] if prefix else tc['TOK_TYPE_OP_IN'],
                                                  '' if prefix else tc['TOK_SUBTYPE_MATH']))
        node.set('left', left)
        node.set('right', right)
        return node

    def ev(node):
        sub = Interp(ctx.a, am, {'node': node, 'context': Rec(cls=AN + 'EvalContext', ref='Sheet1!Z1', sheet='Sheet1', refsheet='Sheet1')},
                     call_models=models, inline_pkg=True, world=world)
        out = sub.run([ast.parse('return node.eval(context)').body[0]])
        return _norm(out.value) if out.end == 'return' else f'<{out.end} {out.value!r}>'

    witnesses = {
        '(X+1)*2': (lambda: op('*', op('+', rng('X'), num('1')), num('2')),
                    lambda x, y: ('op', '*', ('op', '+', x, ('lit', '1')), ('lit', '2'))),
        '-X': (lambda: op('-', None, rng('X'), prefix=True), lambda x, y: ('op', '-', x)),
        '2^-X': (lambda: op('^', num('2'), op('-', None, rng('X'), prefix=True)), lambda x, y: ('op', '^', ('lit', '2'), ('op', '-', x))),
        'X*Y': (lambda: op('*', rng('X'), rng('Y')), lambda x, y: ('op', '*', x, y)),
        'X-Y-1': (lambda: op('-', op('-', rng('X'), rng('Y')), num('1')), lambda x, y: ('op', '-', ('op', '-', x, y), ('lit', '1'))),
    }
    ev_fn = am.func('OperatorNode.eval')
    for label, (make, want) in witnesses.items():
        cells.values.update(X=3, Y=4)
        node = make()
        first = ev(node)
        cells.values.update(X=0, Y=7)
        second = ev(node)
        expect_fn(label, first, second, want(3, 4), want(0, 7), ev_fn)
    return len(witnesses)


def _norm(v):
    """Structural form of a symbolic result: abstract Number instances by their payload."""
    if isinstance(v, Rec) and 'value' in v.f and isinstance(v.f.get('cls'), str):
        return v.f['value']
    if isinstance(v, tuple):
        return tuple(_norm(x) for x in v)
    return v


def rule_operator_nodes(ctx):
    def check(label, first, second, want1, want2, node):
        ctx.expect(first == want1, node, f'operator tree {label}: every operand evaluated, operator applied to (left, right)',
                   f'the tree {label} with X=3, Y=4 evaluates to {first!r}, expected {want1!r}: each operator must be applied to the values of '
                   'its own operands, both of which are evaluated (an error operand would otherwise be lost)')
        ctx.expect(second == want2, node, f'operator tree {label}: second evaluation uses the current operand values',
                   f'the tree {label} evaluated again after the cells changed to X=0, Y=7 gives {second!r}, expected {want2!r} '
                   f'(the first evaluation gave {first!r}): the node serves a value kept from an earlier evaluation or skips an operand')
    return operator_node_twice(ctx, check)


# --------------------------------------------------------------------------------------------------------------
# L3: a reference resolves its address against the current context
# --------------------------------------------------------------------------------------------------------------
def rule_address_per_evaluation(ctx):
    am = ctx.mod('ast_nodes')
    fa = am.func('RangeNode.full_address')
    world = World()
    it = Interp(ctx.a, am, {}, inline_pkg=True, world=world)
    tm = ctx.mod('tokenizer')
    node = build_node(it, 'RangeNode', Rec(cls='pkg:tokenizer:f_token', tvalue='B1', ttype='operand', tsubtype='range'))
    got = []
    for sheet in ('Sheet1', 'Sheet2', 'Sheet1'):
        sub = Interp(ctx.a, am, {'node': node, 'context': Rec(cls=AN + 'EvalContext', ref=f'{sheet}!A1', sheet=sheet, refsheet=sheet)},
                     inline_pkg=True, world=world)
        out = sub.run([ast.parse('return node.full_address(context)').body[0]])
        got.append(out.value if out.end == 'return' else f'<{out.end} {out.value!r}>')
    want = ['Sheet1!B1', 'Sheet2!B1', 'Sheet1!B1']
    ctx.expect(got == want, fa, 'an unqualified reference is resolved against the sheet of the current evaluation',
               f'the same reference node B1 resolved under the contexts of Sheet1, Sheet2, Sheet1 gives {got}, expected {want}: the node keeps '
               'the address of an earlier evaluation (nodes can be shared between cells and sheets; a wrong address reads the wrong cell '
               'and can report a cycle that is not there)')
    return 1


# --------------------------------------------------------------------------------------------------------------
# L4: a formula object belongs to one sheet
# --------------------------------------------------------------------------------------------------------------
def rule_formula_per_sheet(ctx):
    """Two XLFormula objects built from the same text for two sheets, one after the other (module-level state shared):
    each must carry its own sheet and terms qualified with it."""
    xm = ctx.mod('xltypes')
    cnode = xm.cls('XLFormula')
    world = World()
    got = []
    for sheet in ('North', 'South', 'North'):
        it = Interp(ctx.a, xm, {}, inline_pkg=True, world=world)
        f = it._construct('pkg:xltypes:XLFormula', ['=A1*$A$2+Other!B2+SUM(C1:C3)', sheet], {})
        if not isinstance(f, Rec) or 'terms' not in f.f or any(e[0] == '<init-unmodelled>' for e in it.out.events):
            raise Unmodelled('XLFormula construction (terms) on the witness formula')
        got.append((f.f.get('sheet_name'), list(f.f['terms'])))
    want = [(s, [f'{s}!A1', f'{s}!A2', 'Other!B2', f'{s}!C1:C3']) for s in ('North', 'South', 'North')]
    ctx.expect(got == want, cnode, 'terms of a formula: own text, own sheet, on every construction',
               f'XLFormula("=A1*$A$2+Other!B2+SUM(C1:C3)", sheet) built for North, South, North gives {got}, expected {want}: '
               'unqualified references take the sheet of the formula, $ is dropped, and nothing is carried over from a formula built '
               'earlier from the same text (extract(), build_ranges and the dependency terms follow these)')
    return 1


# --------------------------------------------------------------------------------------------------------------
# L5: what a constant cell evaluates to
# --------------------------------------------------------------------------------------------------------------
def rule_constant_cells(ctx):
    """Evaluator.evaluate on cells without a formula: the stored native value becomes the value class of ITS kind -
    None a blank, "" a text (the empty text is not a blank: 5 < "" is TRUE, 5 < blank is FALSE), 0 a number, FALSE a boolean."""
    em = ctx.mod('evaluator')
    ev = em.func('Evaluator.evaluate')
    XLT = 'pkg:xlfunctions.func_xltypes:'
    cases = [(None, 'Blank', None), ('', 'Text', ''), ('abc', 'Text', 'abc'), (0, 'Number', 0), (2.5, 'Number', 2.5), (False, 'Boolean', False),
             (True, 'Boolean', True), ('0', 'Text', '0')]
    world = World()
    for stored, wcls, wval in cases:
        cell = Rec(cls='pkg:xltypes:XLCell', address='S!A1', value=stored, formula=None, need_update=False, defined_names=[])
        model = Rec(cls='pkg:model:Model', cells={'S!A1': cell}, defined_names={}, ranges={}, formulae={})
        evaluator = Rec(cls='pkg:evaluator:Evaluator', model=model, namespace={}, cache_count=0, _eval_stack=[])
        it = Interp(ctx.a, em, {'e': evaluator}, inline_pkg=True, world=world)
        out = it.run([ast.parse("return e.evaluate('S!A1')").body[0]])
        if out.end == 'return' and isinstance(out.value, Rec) and isinstance(out.value.f.get('cls'), str):
            got = (out.value.f['cls'].rpartition(':')[2], out.value.f.get('value'))
        else:
            got = (f'<{out.end}>', out.value)
        ctx.expect(got == (wcls, wval) and type(got[1]) is type(wval), ev, f'constant cell holding {stored!r} evaluates to {wcls}',
                   f'a cell without formula that stores {stored!r} evaluates to {got[0]} {got[1]!r}, expected {wcls} {wval!r}: the empty text is a '
                   'text (it sorts after every number: 5<"" is TRUE), only a cell without content is a blank')
    return len(cases)


# --------------------------------------------------------------------------------------------------------------
# L2: what an evaluation leaves on the evaluator; cycles, diamonds, failures
# --------------------------------------------------------------------------------------------------------------
class _Unbounded(Unmodelled):
    """The witness recursion does not stop: a verdict about the analysed code, not a gap of the interpreter."""


class _Ast(PyModel):
    """Formula tree of a witness cell: a script of nested cell evaluations followed by a result or a failure."""

    def __init__(self, run_nested, script, result=None, fail=None, budget=None):
        self.run_nested, self.script, self.result, self.fail = run_nested, script, result, fail
        self.calls = 0
        self.budget = budget if budget is not None else {'n': 0}

    def eval(self, context):
        from xlsa.guards import ExcRaised
        self.calls += 1
        self.budget['n'] += 1
        if self.budget['n'] > 24:
            raise _Unbounded('the formulas of the witness model are entered more than 24 times (unbounded recursion)')
        vals = [self.run_nested(context, addr) for addr in self.script]
        if self.fail is not None:
            raise ExcRaised(Ref(self.fail))
        return self.result if self.result is not None else tuple(vals)


def _snapshot(rec, skip=('model',)):
    out = {}
    for k, v in rec.f.items():
        if k in skip:
            continue
        if isinstance(v, (list, dict, set)):
            out[k] = repr(sorted(v, key=repr) if isinstance(v, (set, dict)) else list(v))
        elif isinstance(v, (int, float, str, bool, type(None))):
            out[k] = v
    return out


def rule_evaluator_state(ctx, parts=('restore', 'diamond', 'cycle')):
    """Evaluator.evaluate interpreted on witness models (one world per scenario): what a finished evaluation - successful or
    failed - leaves on the evaluator, whether shared precedents (diamond, repeated reference) evaluate, whether a real cycle is
    reported instead of recursing."""
    em = ctx.mod('evaluator')
    ev_fn = em.func('Evaluator.evaluate')
    XLT = 'pkg:xlfunctions.func_xltypes:'
    n = 0

    def scenario(cell_specs):
        world = World()
        model = Rec(cls='pkg:model:Model', cells={}, defined_names={}, ranges={}, formulae={})
        mk = Interp(ctx.a, em, {}, inline_pkg=True, world=world)
        world.globals['pkg:xlfunctions.xl:FUNCTIONS'] = {}
        evaluator = mk._construct('pkg:evaluator:Evaluator', [model], {})
        if not isinstance(evaluator, Rec) or any(e[0] == '<init-unmodelled>' for e in mk.out.events):
            raise Unmodelled('Evaluator(model) on the witness model')

        def run_nested(context, addr):
            sub = Interp(ctx.a, em, {'context': context, 'addr': addr}, inline_pkg=True, world=world)
            out = sub.run([ast.parse('return context.eval_cell(addr)').body[0]])
            if out.end == 'raise':
                from xlsa.guards import ExcRaised
                raise ExcRaised(out.value)
            return out.value
        asts = {}
        budget = {'n': 0}
        for addr, spec in cell_specs.items():
            if spec is None or not isinstance(spec, dict):
                model.f['cells'][addr] = Rec(cls='pkg:xltypes:XLCell', address=addr, value=spec, formula=None, need_update=False, defined_names=[])
            else:
                a = _Ast(run_nested, spec.get('refs', []), spec.get('result'), spec.get('fail'), budget)
                asts[addr] = a
                model.f['cells'][addr] = Rec(cls='pkg:xltypes:XLCell', address=addr, value=None, need_update=True, defined_names=[],
                                             formula=Rec(cls='pkg:xltypes:XLFormula', formula='=witness', evaluate=True, ast=a, terms=list(spec.get('refs', []))))

        def evaluate(addr):
            it = Interp(ctx.a, em, {'e': evaluator, 'addr': addr}, inline_pkg=True, world=world)
            return it.run([ast.parse('return e.evaluate(addr)').body[0]])
        return evaluator, asts, evaluate

    if 'restore' in parts:
        n += _restore_part(ctx, scenario, ev_fn)
    if 'diamond' in parts:
        n += _diamond_part(ctx, scenario, ev_fn)
    if 'cycle' in parts:
        n += _cycle_part(ctx, scenario, ev_fn)
    return n


def _restore_part(ctx, scenario, ev_fn):
    n = 0
    # 1. a failed evaluation leaves nothing behind; the next evaluation of the same cell works
    evaluator, asts, evaluate = scenario({'S!A1': {'refs': ['S!B1'], 'result': 'ok'}, 'S!B1': {'refs': [], 'fail': 'builtin:KeyError'}})
    before = _snapshot(evaluator)
    out1 = evaluate('S!A1')
    after = _snapshot(evaluator)
    n += 1
    ctx.expect(out1.end == 'raise', ev_fn, 'a Python-level failure inside a precedent surfaces as an exception',
               f'evaluating a cell whose precedent fails with KeyError ends in {out1.end} {out1.value!r}')
    n += 1
    ctx.expect(before == after, ev_fn, 'a failed evaluation leaves the evaluator as it found it',
               f'after a failed evaluation the evaluator holds {after}, before it held {before}: bookkeeping of the failed evaluation '
               '(the addresses on the evaluation stack) stays behind and the next evaluation of these cells reports a cycle that is not there')
    asts['S!B1'].fail = None
    asts['S!B1'].result = 7
    out2 = evaluate('S!A1')
    n += 1
    ctx.expect(out2.end == 'return' and out2.value == 'ok', ev_fn, 'after a failed evaluation the same cells evaluate normally',
               f'evaluating the cell again after the cause of the failure is gone ends in {out2.end} {out2.value!r}')
    # 2. a successful evaluation leaves nothing behind either
    evaluator, asts, evaluate = scenario({'S!A1': {'refs': ['S!B1'], 'result': 'ok'}, 'S!B1': 5})
    before = _snapshot(evaluator)
    out = evaluate('S!A1')
    n += 1
    ctx.expect(out.end == 'return' and _snapshot(evaluator) == before, ev_fn, 'a successful evaluation leaves the evaluator as it found it',
               f'after a successful evaluation ({out.end}) the evaluator holds {_snapshot(evaluator)}, before it held {before}')
    return n


def _diamond_part(ctx, scenario, ev_fn):
    n = 0
    # 3. diamond and repeated reference are no cycles
    evaluator, asts, evaluate = scenario({'S!D1': {'refs': ['S!B1', 'S!C1', 'S!B1'], 'result': 'd'}, 'S!B1': {'refs': ['S!A1'], 'result': 'b'},
                                          'S!C1': {'refs': ['S!A1'], 'result': 'c'}, 'S!A1': {'refs': [], 'result': 'a'}})
    out = evaluate('S!D1')
    n += 1
    ctx.expect(out.end == 'return' and out.value == 'd', ev_fn, 'diamond and repeated references evaluate (no false cycle)',
               f'D1 = f(B1, C1, B1) with B1 = g(A1), C1 = h(A1) ends in {out.end} {out.value!r}: shared precedents are not cycles')
    # the same precedent reached again in a LATER evaluation on the same evaluator
    out = evaluate('S!B1')
    n += 1
    ctx.expect(out.end == 'return' and out.value == 'b', ev_fn, 'a precedent can be evaluated on its own after its dependents',
               f'evaluating B1 after D1 (which used it) ends in {out.end} {out.value!r}')
    return n


def _cycle_part(ctx, scenario, ev_fn):
    n = 0
    # 4. real cycles are reported, not followed
    for label, cells, start in (('A1 -> A1', {'S!A1': {'refs': ['S!A1'], 'result': 'x'}}, 'S!A1'),
                                ('A1 -> B1 -> C1 -> A1', {'S!A1': {'refs': ['S!B1'], 'result': 'x'}, 'S!B1': {'refs': ['S!C1'], 'result': 'x'},
                                                          'S!C1': {'refs': ['S!A1'], 'result': 'x'}}, 'S!A1')):
        evaluator, asts, evaluate = scenario(cells)
        try:
            out = evaluate(start)
            res = (out.end, sum(a.calls for a in asts.values()))
        except _Unbounded as exc:
            res = ('unbounded', str(exc)[:80])
        n += 1
        ctx.expect(res[0] == 'raise' and isinstance(res[1], int) and res[1] <= len(cells), ev_fn, f'the cycle {label} is reported on re-entry',
                   f'evaluating the cyclic model {label} ends in {res[0]} after {res[1]} formula evaluations: every formula may be entered at most '
                   'once before the cycle is reported (the guard must see the cells currently being evaluated)')
    return n
