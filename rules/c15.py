"""C15 - criteria counting and lookups agree with a linear scan of the range (structural part)."""
import ast
import re

from xlsa import Unmodelled, AnchorMissing
from xlsa.consteval import Ref, Obj, Unfoldable
from xlsa.guards import Interp, Rec, PyModel, Opaque
from xlsa.load import walk_local, names_in, dotted
from xlsa import flow
from .common import func_params, value_returns, last_return, XLERR, XLT, raise_class, is_excel_error_ref

PROPERTY = 'C15'
EXPLANATION = (
    'Decided from source: (C15.1) selectors select: VLOOKUP lookup_value/col_index_num, MATCH lookup_value/match_type and '
    'CHOOSE index_num are in the backward slice (data, or control through a value-selecting branch) of a value-returning '
    'return - influencing only a raise does not count; (C15.2) criteria syntax: the operator table is {=,<>,<,<=,>,>=} '
    'mapped to the matching comparison wrappers, the prefix group of the criteria regex cannot swallow the first character '
    'of a numeric operand (-, .), (the fallback for a prefix that is no operator and the operand order of the check are '
    'decided on values by C15.5); (C15.3) index guards: decision table of the CHOOSE guard at 0, 1, n, n+1 (raises #VALUE! '
    'outside 1..n, returns values[i-1] inside); (C15.4) a witness workbook for COUNTIF / COUNTIFS: matches in the first and the last row, after '
    'long runs of non-matches, criteria over different columns that agree only in some rows (SUMIF / SUMIFS are not '
    'decided: the installed pandas does not support them). (C15.5) parse_criteria(criterion)(cell value) on 16 witness '
    'criteria x cell values through the real operator wrappers and comparison methods: six operators, plain values, texts '
    'case-insensitively also for <>. (C15.6) a witness workbook: MATCH (exact, approximate ascending / descending, repeated'
    ' values, keys below / between / on / above the values, texts), COUNTIF / COUNTIFS with one to four criteria, CHOOSE at'
    ' and beyond its bounds, VLOOKUP over a table with keys of several types, a repeated key, texts in another case and every column number '
    'below, inside and beyond the table, against hand-worked linear scans; 130-row columns against scans computed by the rule.')
NOT_DECIDED = 'tables beyond the witness columns; SUMIF / SUMIFS (the installed pandas lacks DataFrame.applymap, which they need)'
TRUSTED = ['workbook scenarios: pandas storage of range arrays as row-major rows, numpy on Python numbers (IEEE results, 64-bit integer wrap), dateutil.parser.parse rejecting texts that are no dates, openpyxl address arithmetic, inspect.signature built from the FunctionDef', 'typing.Union aliases compare as sets of their members']


def _reg(ctx, name):
    for f in ctx.a.registry:
        if f.name == name:
            return f
    raise AnchorMissing(f'registered function {name}')


def influence(fn, param):
    """Value-returning returns whose value depends on `param` (data, or control via selecting branches)."""
    deps = flow.Deps(fn)
    hits, total = [], []
    for r in value_returns(fn):
        total.append(r)
        names = names_in(r.value) | deps.control_names(r, selectors_only=True)
        if ('@' + param) in deps.closure(names):
            hits.append(r)
    return hits, total


def rule_1(ctx):
    want = {'VLOOKUP': ['lookup_value', 'col_index_num'], 'MATCH': ['lookup_value', 'match_type'], 'CHOOSE': ['index_num']}
    for name, params in want.items():
        f = _reg(ctx, name)
        have = func_params(f.node)
        for i, p in enumerate(params):
            # positional identification keeps the rule independent of parameter names
            pos = {'lookup_value': 0, 'col_index_num': 2, 'match_type': 2, 'index_num': 0}[p]
            pname = have[pos] if pos < len(have) else p
            hits, total = influence(f.node, pname)
            ctx.expect(bool(hits), f.node, f'{name}.{pname} influences the returned value',
                       f'parameter {pname} of {name} never reaches a returned value (it only feeds checks that raise): '
                       f'{name} returns the same cell whatever {pname} is')
    ctx.floor(5, 'selector parameters')


def rule_2(ctx):
    cm = ctx.mod('xlfunctions.xlcriteria')
    tnode = cm.assign('CRITERIA_OPERATORS')
    table = ctx.fold(tnode, cm)
    want = {'<': 'OP_LT', '<=': 'OP_LE', '=': 'OP_EQ', '<>': 'OP_NE', '>=': 'OP_GE', '>': 'OP_GT'}
    ctx.expect(set(table) == set(want), tnode, 'criteria operator keys', f'criteria operators are {sorted(table)}, expected {sorted(want)}')
    for k, v in want.items():
        got = table.get(k)
        ok = isinstance(got, Ref) and got.ref == f'pkg:xlfunctions.operator:{v}'
        ctx.expect(ok, tnode, f'CRITERIA_OPERATORS[{k!r}]', f'criterion prefix {k!r} is evaluated by {got}, expected {v}')
    rx = ctx.fold(cm.assign('CRITERIA_REGEX'), cm)
    node = cm.assign('CRITERIA_REGEX')
    pat = re.compile(rx)
    # the prefix group on criteria whose operand starts with a sign or a decimal point
    classes = {
        'a minus sign': [('>-5', '>', '-5'), ('<=-2.5', '<=', '-2.5'), ('=-2', '=', '-2'), ('<>-1', '<>', '-1')],
        'a decimal point': [('>.5', '>', '.5'), ('<.25', '<', '.25')],
        'a digit or letter': [('>5', '>', '5'), ('<=abc', '<=', 'abc'), ('<>x', '<>', 'x'), ('abc', '', 'abc'), ('12', '', '12')],
    }
    for label, cases in classes.items():
        wrong = []
        for crit, op, operand in cases:
            m = pat.search(crit)
            got = (m.group(1), m.group(2)) if m else None
            if got != (op, operand):
                wrong.append(f'{crit!r}->{got}')
        ctx.expect(not wrong, node, f'regex keeps an operand that starts with {label}',
                   f'the criteria regex splits {wrong}: the prefix group swallows the first character of the operand, the operator is '
                   f'not recognised and the criterion degrades to text equality (COUNTIF(r,">-5") = 0)')
    # the fallback (no operator prefix -> "=" on the whole text) and the operand order of the check are decided on values by C15.5
    ctx.floor(10, 'criteria table + regex witness classes')


def rule_3(ctx):
    f = _reg(ctx, 'CHOOSE')
    fn = f.node
    p = func_params(fn)
    idxp, valsp = p[0], p[1]
    vals = ('a', 'b', 'c')
    for idx, want in ((0, 'raise'), (-1, 'raise'), (1, 'a'), (2, 'b'), (3, 'c'), (4, 'raise'), (255, 'raise')):
        it = Interp(ctx.a, f.module, {idxp: idx, valsp: vals})
        out = it.run(fn.body)
        if want == 'raise':
            ok = out.end == 'raise' and isinstance(out.value, Ref) and out.value.ref == XLERR + 'ValueExcelError'
            got = f'{out.end} {out.value}'
        else:
            ok = out.end == 'return' and out.value == want
            got = f'{out.end} {out.value!r}'
        ctx.expect(ok, fn, f'CHOOSE({idx}, a, b, c)', f'CHOOSE({idx},a,b,c) gives {got}, expected {"#VALUE!" if want == "raise" else want!r}')
    # MATCH positions are decided end to end by C15.6 (witness workbook)
    # VLOOKUP (absent keys, repeated keys, column numbers below, inside and beyond the table) is decided end to end by C15.6 as well
    ctx.floor(7, 'CHOOSE critical points')


SCAN_CELLS = {
    'A1': 7, 'A2': 1, 'A3': 1, 'A4': 1, 'A5': 1, 'A6': 1, 'A7': 1, 'A8': 7, 'A9': 1, 'A10': 7,
    'B1': 'x', 'B2': 'y', 'B3': 'y', 'B4': 'y', 'B5': 'y', 'B6': 'y', 'B7': 'y', 'B8': 'x', 'B9': 'x', 'B10': 'y',
    'C1': 1, 'C2': 2, 'C3': 3, 'C4': 4, 'C5': 5, 'C6': 6, 'C7': 7, 'C8': 8, 'C9': 9, 'C10': 10,
    'S1': '=COUNTIF(A1:A10,7)', 'S2': '=COUNTIF(A1:A10,">1")', 'S3': '=COUNTIF(A1:A10,"<>7")', 'S4': '=COUNTIFS(A1:A10,7,B1:B10,"x")',
    'S5': '=COUNTIFS(A1:A10,7,B1:B10,"y")', 'S6': '=COUNTIFS(B1:B10,"x",A1:A10,1)', 'S7': '=COUNTIFS(A1:A10,7,B1:B10,"x",C1:C10,">1")',
    'S8': '=COUNTIFS(C1:C10,">=8",A1:A10,7)', 'S9': '=COUNTIFS(C1:C10,"<=1",A1:A10,7,B1:B10,"x")', 'S10': '=COUNTIF(B1:B10,"x")+COUNTIF(B1:B10,"y")',
    'S11': '=COUNTIFS(A1:A10,1,B1:B10,"y",C1:C10,"<>5")', 'S12': '=COUNTIF(C10:C10,10)',
}
SCAN_EXPECTED = {'S1': 3, 'S2': 3, 'S3': 7, 'S4': 2, 'S5': 1, 'S6': 1, 'S7': 1, 'S8': 2, 'S9': 1, 'S10': 10, 'S11': 5, 'S12': 1}


def rule_4(ctx):
    """Every cell of the range is tested, several criteria are combined conjunctively position by position - decided on a witness
    workbook evaluated as written: matches in the first and the last row, after long runs of non-matches, criteria over different
    columns that agree only in some rows. (SUMIF / SUMIFS are not decided: the installed pandas does not support them.)"""
    from . import workbook as W
    from . import scenarios as S
    wb = W.Workbook(ctx, SCAN_CELLS)
    for a, w in SCAN_EXPECTED.items():
        name = 'COUNTIFS' if 'COUNTIFS' in SCAN_CELLS[a] else 'COUNTIF'
        got = wb.value('Sheet1!' + a)
        ctx.expect(S.same(got, w), _reg(ctx, name).node, f'every cell is tested, position by position: {SCAN_CELLS[a]}',
                   f'{a} = {SCAN_CELLS[a]} evaluates to {got!r}, expected {w} (A = 7,1,1,1,1,1,1,7,1,7; B = x,y,y,y,y,y,y,x,x,y; C = 1..10)')
    ctx.floor(12, 'scan cells')


CRITERIA_TABLE = [
    # criterion, [(probe class, probe value, matches?)]
    ('<>banana', [('Text', 'BANANA', False), ('Text', 'banana', False), ('Text', 'apple', True), ('Number', 3, True)]),
    ('banana', [('Text', 'Banana', True), ('Text', 'x', False), ('Number', 1, False)]),
    ('=banana', [('Text', 'BANANA', True), ('Text', 'bananas', False)]),
    ('>5', [('Number', 6, True), ('Number', 5, False), ('Number', 4.5, False)]),
    ('>=5', [('Number', 5, True), ('Number', 4.99, False)]),
    ('<5', [('Number', 4, True), ('Number', 5, False)]),
    ('<=2.5', [('Number', 2.5, True), ('Number', 3, False)]),
    ('<>5', [('Number', 5, False), ('Number', 5.5, True)]),
    ('=5', [('Number', 5, True), ('Number', 6, False)]),
    ('5', [('Number', 5, True), ('Number', 6, False)]),
    (5, [('Number', 5, True), ('Number', 6, False)]),
    ('>b', [('Text', 'c', True), ('Text', 'C', True), ('Text', 'a', False)]),
    ('-7', [('Number', -7, True), ('Number', 7, False)]),
    ('(none)', [('Text', '(none)', True), ('Text', 'none', False)]),
]


def rule_5(ctx):
    """parse_criteria(criterion)(cell value) on witness criteria and cell values, through the real operator wrappers and the real
    comparison methods of the value classes (constant propagation): the six operators, text case-insensitively, numbers numerically."""
    from xlsa.guards import World, ExcRaised
    cm = ctx.mod('xlfunctions.xlcriteria')
    pc = cm.func('parse_criteria')

    def nodate(*a, **k):
        raise ExcRaised(Ref('builtin:ValueError'))      # none of the witness texts is a date
    world = World()
    n = 0
    for crit, probes in CRITERIA_TABLE:
        for pcls, pval, want in probes:
            probe = Rec(cls=XLT + pcls, value=pval)
            it = Interp(ctx.a, cm, {'c': crit, 'p': probe}, inline_pkg=True, world=world, call_models={'ext:dateutil.parser.parse': nodate})
            out = it.run(ast.parse('chk = parse_criteria(c)\nreturn chk(p)').body)
            if out.end == 'return' and isinstance(out.value, Rec) and 'value' in out.value.f:
                got = out.value.f['value']
            elif out.end == 'return' and isinstance(out.value, bool):
                got = out.value
            else:
                got = f'<{out.end} {out.value!r}>'
            n += 1
            ctx.expect(got == want, pc, f'criterion {crit!r} on the {pcls.lower()} {pval!r}',
                       f'the criterion {crit!r} applied to a cell holding the {pcls.lower()} {pval!r} gives {got!r}, expected {want!r} '
                       '(operator prefix <, <=, =, <>, >=, > or plain value meaning "="; texts compare case-insensitively, also for <>)')
    ctx.floor(n, 'criteria x cell values')


LOOKUP_CELLS = {
    'A1': 10, 'A2': 20, 'A3': 20, 'A4': 30, 'B1': 30, 'B2': 20, 'B3': 20, 'B4': 10, 'C1': 1, 'C2': 2, 'C3': 3, 'C4': 4, 'C5': 5,
    'D1': 'apple', 'D2': 'Pear', 'D3': 'apple', 'D4': 'APPLE', 'D5': 'pear', 'E1': 'ant', 'E2': 'bee', 'E3': 'cat',
    'M1': '=MATCH(25,A1:A4,1)', 'M2': '=MATCH(25,A1:A4)', 'M3': '=MATCH(15,A1:A4,1)', 'M4': '=MATCH(20,A1:A4,0)', 'M5': '=MATCH(30,A1:A4,0)',
    'M6': '=MATCH(25,A1:A4,0)', 'M7': '=MATCH(15,B1:B4,-1)', 'M8': '=MATCH(5,A1:A4,1)', 'M9': '=MATCH(35,A1:A4,1)', 'M10': '=MATCH(20,A1:A4,1)',
    'M11': '=MATCH(25,B1:B4,-1)', 'M12': '=MATCH("bee",E1:E3,0)', 'M13': '=MATCH("BEE",E1:E3,0)', 'M14': '=MATCH("bz",E1:E3,1)', 'M15': '=MATCH(3,C1:C5,1)',
    'M16': '=MATCH(4.5,C1:C5)', 'M17': '=MATCH(10,A1:A4,0)',
    'K1': '=COUNTIFS(C1:C5,">1",C1:C5,"<=4",D1:D5,"apple")', 'K2': '=COUNTIFS(C1:C5,">1",D1:D5,"pear")', 'K3': '=COUNTIF(D1:D5,"apple")',
    'K4': '=COUNTIFS(C1:C5,">=2",C1:C5,"<5",D1:D5,"<>pear",C1:C5,"<>3")', 'K5': '=COUNTIF(C1:C5,3)', 'K6': '=COUNTIF(C1:C5,"<>3")',
    'K7': '=COUNTIFS(C1:C5,"<4",D1:D5,"apple",C1:C5,">=1")', 'K8': '=COUNTIFS(D1:D5,"=APPLE",C1:C5,">2",C1:C5,"<5",C1:C5,"<>9")', 'K9': '=COUNTIFS(C1:C5,">5")',
    'K10': '=COUNTIF(C1:C5,">=2.5")', 'K11': '=COUNTIFS(C1:C5,"<=3",C1:C5,">=3",C1:C5,"=3")',
    # VLOOKUP: keys of several types, a repeated key, texts in another case, every column index in and outside the table
    'Q1': 10, 'R1': 'x', 'S1': 1.5, 'Q2': 20, 'R2': 'y', 'S2': 2.5, 'Q3': 20, 'R3': 'z', 'S3': 3.5, 'Q4': 'key', 'R4': 'w', 'S4': 4.5, 'Q5': True, 'R5': 't', 'S5': 5.5,
    'V1': '=VLOOKUP(10,Q1:S5,2)', 'V2': '=VLOOKUP(20,Q1:S5,2,FALSE)', 'V3': '=VLOOKUP(20,Q1:S5,3)', 'V4': '=VLOOKUP(99,Q1:S5,2)', 'V5': '=VLOOKUP(10,Q1:S5,4)',
    'V6': '=VLOOKUP("key",Q1:S5,3)', 'V7': '=VLOOKUP("KEY",Q1:S5,3)', 'V8': '=VLOOKUP(10,Q1:S5,1)', 'V9': '=VLOOKUP(10,Q1:S5,0)', 'V10': '=VLOOKUP(10,Q1:S5,3)+1',
    'V11': '=VLOOKUP(Q2,Q1:S5,3)', 'V12': '=VLOOKUP(10.0,Q1:S5,3)', 'V13': '=VLOOKUP("10",Q1:S5,3)', 'V14': '=VLOOKUP(10,Q1:S5,-1)', 'V15': '=VLOOKUP(TRUE,Q1:S5,2)',
    'V16': '=VLOOKUP(1,Q1:S5,2)', 'V17': '=VLOOKUP(30,Q1:S5,2)', 'V18': '=VLOOKUP("ke",Q1:S5,2)', 'V19': '=VLOOKUP(20,Q2:S3,3)', 'V20': '=VLOOKUP(20,Q3:S5,2)',
    'V21': '=VLOOKUP(99,Q1:S5,1)', 'V22': '=VLOOKUP("zz",Q1:S5,1)', 'V23': '=VLOOKUP(FALSE,Q1:S5,1)',
    # criteria over rows and rectangles; exact MATCH spelt FALSE
    'AA1': 3, 'AA2': 1, 'AA3': 4, 'AB1': 1, 'AB2': 5, 'AB3': 9, 'AC1': 'fig', 'AC2': 'Fig', 'AC3': 'plum',
    'W1': '=COUNTIF(C1:C5,">0")', 'W2': '=COUNTIF(AA1:AC1,"fig")', 'W3': '=COUNTIF(AA1:AB3,">2")', 'W4': '=COUNTIF(AA1:AC3,"fig")', 'W5': '=COUNTIF(AA1:AB1,1)',
    'W6': '=COUNTIFS(AA1:AB3,">=1",AA1:AB3,"<5")', 'W7': '=COUNTIF(AA2:AB2,"<>1")', 'W8': '=COUNTIF(AA1:AB1,">0")', 'W9': '=COUNTIF(AA1:AC3,"<>fig")',
    'AD1': 0, 'AD2': 5, 'AD3': 0.0, 'AD4': False, 'W10': '=COUNTIF(AD1:AD4,0)', 'W11': '=COUNTIF(AD1:AD4,"<1")', 'W12': '=COUNTIF(AD1:AD4,FALSE)',
    'W13': '=COUNTIFS(AD1:AD4,"<=0",AD1:AD4,">=0")', 'W14': '=COUNTIF(AD1:AD4,"<>5")',
    'AE1': '=""', 'AE2': 0, 'AE3': 0, 'AE4': 'x', 'W15': '=COUNTIF(AE1:AE3,">=0")', 'W16': '=COUNTIF(AE2:AE3,">=0")+COUNTIF(AE1:AE3,">=0")',
    'X8': '=MATCH("20",A1:A4,0)', 'X9': '=MATCH("1",C1:C5,0)', 'X10': '=MATCH("30",A1:A4,FALSE)',
    'X1': '=MATCH(40,N1:N4,FALSE)', 'X2': '=MATCH(25,A1:A4,FALSE)', 'X3': '=MATCH(20,A1:A4,FALSE)', 'X4': '=MATCH("fig",AC1:AC3,FALSE)', 'X5': '=MATCH(20,A1:A4,1=2)',
    'X6': '=MATCH(20,N1:N4,0)', 'N1': 30, 'N2': 10, 'N3': 40, 'N4': 20,
    'H1': '=CHOOSE(2,"a","b","c")', 'H2': '=CHOOSE(1,A1,A2)', 'H3': '=CHOOSE(3,A1,A2,A4)+1', 'H4': '=CHOOSE(4,"a","b","c")', 'H5': '=CHOOSE(0,"a")',
}
LOOKUP_EXPECTED = {
    'M1': 3, 'M2': 3, 'M3': 1, 'M4': 2, 'M5': 4, 'M6': '#N/A', 'M7': 3, 'M8': '#N/A', 'M9': 4, 'M10': 3, 'M11': 1, 'M12': 2, 'M13': 2, 'M14': 2, 'M15': 3,
    'M16': 4, 'M17': 1,
    'K1': 2, 'K2': 2, 'K3': 3, 'K4': 1, 'K5': 1, 'K6': 4, 'K7': 2, 'K8': 2, 'K9': 0, 'K10': 3, 'K11': 1,
    'V1': 'x', 'V2': 'y', 'V3': 2.5, 'V4': '#N/A', 'V5': '#VALUE!', 'V6': 4.5, 'V7': 4.5, 'V8': 10, 'V9': '#VALUE!', 'V10': 2.5, 'V11': 2.5, 'V12': 1.5, 'V13': '#N/A',
    'V14': '#VALUE!', 'V15': 't', 'V16': '#N/A', 'V17': '#N/A', 'V18': '#N/A', 'V19': 2.5, 'V20': 'z', 'V21': '#N/A', 'V22': '#N/A', 'V23': '#N/A',
    'W1': 5, 'W2': 1, 'W3': 4, 'W4': 2, 'W5': 1, 'W6': 4, 'W7': 1, 'W8': 2, 'W9': 7, 'W10': 2, 'W11': 2, 'W12': 1, 'W13': 2, 'W14': 3, 'W15': 2, 'W16': 4, 'X8': '#N/A', 'X9': '#N/A', 'X10': '#N/A', 'X1': 3, 'X2': '#N/A', 'X3': 2, 'X4': 1, 'X5': 2, 'X6': 4,
    'H1': 'b', 'H2': 10, 'H3': 31, 'H4': '#VALUE!', 'H5': '#VALUE!',
}


def rule_6(ctx):
    """A witness workbook, interpreted as written: MATCH (exact, ascending and descending approximate, data with repeated values,
    keys below, between, on and above the values, texts), COUNTIF / COUNTIFS with one to four criteria over numbers and
    mixed-case texts, CHOOSE at and beyond its bounds - each cell against the linear scan worked out by hand."""
    from . import workbook as W
    from . import scenarios as S
    from .c10 import _as_value
    wb = W.Workbook(ctx, LOOKUP_CELLS)
    for a, w in LOOKUP_EXPECTED.items():
        fname = LOOKUP_CELLS[a][1:].split('(')[0]
        anchor = _reg(ctx, fname).node
        got = wb.value('Sheet1!' + a)
        if isinstance(got, tuple) and got and got[0] == 'error-class':
            got = ('error', W.error_code(ctx, got[1]))
        ctx.expect(S.same(got, _as_value(w)), anchor, f'lookup workbook: {LOOKUP_CELLS[a]}',
                   f'{a} = {LOOKUP_CELLS[a]} evaluates to {got!r}, expected {w!r} (A = 10, 20, 20, 30; B = 30, 20, 20, 10; C = 1..5; D = apple, Pear, '
                   'apple, APPLE, pear; E = ant, bee, cat; Q1:S5 = (10,x,1.5), (20,y,2.5), (20,z,3.5), (key,w,4.5), (TRUE,t,5.5)): the result of the linear scan the function stands for')
    # long columns: the scan sees every cell however many there are
    rows = 130
    col_n = [i % 5 for i in range(1, rows + 1)]
    col_o = [i % 3 for i in range(1, rows + 1)]
    long_cells = {f'N{i}': col_n[i - 1] for i in range(1, rows + 1)}
    long_cells.update({f'O{i}': col_o[i - 1] for i in range(1, rows + 1)})
    formulas = {
        'P1': (f'=COUNTIFS(N1:N{rows},">=2",O1:O{rows},"<2",N1:N{rows},"<4")', sum(1 for n_, o_ in zip(col_n, col_o) if 2 <= n_ < 4 and o_ < 2)),
        'P2': (f'=COUNTIFS(N1:N{rows},">=2",O1:O{rows},"<2")', sum(1 for n_, o_ in zip(col_n, col_o) if n_ >= 2 and o_ < 2)),
        'P3': (f'=COUNTIF(N1:N{rows},4)', col_n.count(4)),
        'P4': (f'=COUNTIFS(O1:O{rows},0,N1:N{rows},"<>0",O1:O{rows},"<1",N1:N{rows},">1")', sum(1 for n_, o_ in zip(col_n, col_o) if o_ == 0 and n_ > 1)),
        'P5': (f'=MATCH(4,N1:N{rows},0)', col_n.index(4) + 1),
    }
    long_cells.update({a: f for a, (f, w) in formulas.items()})
    wb = W.Workbook(ctx, long_cells, max_items=4000)
    for a, (f, w) in formulas.items():
        anchor = _reg(ctx, f[1:].split('(')[0]).node
        got = wb.value('Sheet1!' + a)
        if isinstance(got, tuple) and got and got[0] == 'error-class':
            got = ('error', W.error_code(ctx, got[1]))
        ctx.expect(S.same(got, _as_value(w)), anchor, f'lookup workbook, {rows} rows: {f}',
                   f'{a} = {f} evaluates to {got!r}, expected {w!r} (N = row mod 5, O = row mod 3 for rows 1..{rows}): the result of the linear scan over every '
                   'cell of the ranges, however long they are')
    ctx.floor(70, 'lookup / criteria cells')


RULES = [
    ('C15.1', 'selectors select (parameter influence on returned values)', rule_1),
    ('C15.2', 'criteria operator table, prefix regex, fallback', rule_2),
    ('C15.3', 'index guards: CHOOSE decision table', rule_3),
    ('C15.4', 'every cell is tested', rule_4),
    ('C15.5', 'criteria decision table on witness criteria and cell values', rule_5),
    ('C15.6', 'witness workbook: MATCH, COUNTIF(S), CHOOSE, VLOOKUP against hand-worked linear scans', rule_6),
]
