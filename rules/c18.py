"""C18 - date serials and date functions follow the 1900 date system (structural part)."""
import ast
from fractions import Fraction

from xlsa import Unmodelled, AnchorMissing
from xlsa.consteval import Ref, Obj, Unfoldable
from xlsa.guards import Interp, Rec, PyModel, Opaque
from xlsa.load import walk_local, names_in, dotted
from xlsa import flow
from .common import func_params, value_returns, last_return, XLERR, XLT, raise_class, is_excel_error_ref, Lin, linear

PROPERTY = 'C18'
EXPLANATION = (
    'Decided from source, mostly by interpreting the date functions as the evaluator calls them (calendar '
    "arithmetic folded; dateutil's relativedelta and rrule by their documented semantics): (C18.1) the "
    'serial<->date pair at the critical serials (1, 58, 59, 61, 62) and day counts, the inverse agrees; the '
    'time-of-day term is linear with coefficient 86400 and 1/86400 (known finding F35); (C18.2) DATE / EDATE / '
    'EOMONTH / YEAR on epoch and range witnesses: serial 1 = 1900-01-01 is a date, results before it are #NUM!, '
    'years 1900..9999 are valid, month overflow carries; (C18.3) WEEKDAY for every supported return type on the '
    'seven days of a known week, unknown types #NUM!; (C18.4) YEAR, MONTH, DAY, WEEKDAY, ISOWEEKNUM, EDATE, EOMONTH '
    'of a serial with a time of day equal those of the whole serial (F35 makes ISOWEEKNUM / EDATE / EOMONTH raise '
    'OverflowError), and the calendar fields of witness dates; (C18.5) YEARFRAC basis dispatch: 2 -> days/360, 3 -> '
    'days/365, 0/1/4 -> library conventions, other -> error, dates swapped when out of order; (C18.6) DATEDIF Y / M '
    '/ D on date pairs one day before / on / after an anniversary across leap years.'
    ' (C18.7) DAYS and the subtraction of dates (built by DATE, held in cells, given as serials, across serial 60 and leap years) equal the difference of the serials.'
    ' (C18.1) number_to_datetime / datetime_to_number interpreted on serials and datetimes; (C18.8) DATE carries across the epoch, calendar fields around the year ends of ordinary, leap and century years, sequences of date calls in one process, a 1904-system workbook loaded earlier in the process.')
NOT_DECIDED = 'the calendar itself (datetime / dateutil / yearfrac), the three million serials'
TRUSTED = ["openpyxl's two epochs (CALENDAR_WINDOWS_1900, CALENDAR_MAC_1904) as documented constants", 'datetime.timedelta(days, seconds) and datetime.weekday() (Monday = 0) semantics', 'workbook scenarios: pandas storage of range arrays as row-major rows, numpy on Python numbers (IEEE results, 64-bit integer wrap), dateutil.parser.parse rejecting texts that are no dates, openpyxl address arithmetic, inspect.signature built from the FunctionDef']


def _reg(ctx, name):
    for f in ctx.a.registry:
        if f.name == name:
            return f
    raise AnchorMissing(f'registered function {name}')


def rule_1(ctx):
    import datetime as dt
    from xlsa.guards import World
    um = ctx.mod('xlfunctions.utils')
    n2d = um.func('number_to_datetime')
    d2n = um.func('datetime_to_number')

    def conv(name, arg):
        it = Interp(ctx.a, um, {'v': arg}, inline_pkg=True, world=World())
        out = it.run(ast.parse(f'return {name}(v)').body)
        return out.value if out.end == 'return' else f'<{out.end} {out.value!r}>'
    day0 = dt.datetime(1900, 1, 1)
    for serial in (1, 2, 58, 59, 61, 62, 100, 45000):
        want = day0 + dt.timedelta(days=serial - 1 if serial <= 59 else serial - 2)
        got = conv('number_to_datetime', serial)
        ctx.expect(got == want, n2d, f'number_to_datetime({serial}): day index',
                   f'serial {serial} is mapped to {got!r}, expected {want!r} '
                   f'(serial 59 = 1900-02-28, serial 61 = 1900-03-01; serial 60 is the phantom leap day)')
    # the time of day: seconds = frac * 86400
    wrong = []
    for serial, want in ((61.5, dt.datetime(1900, 3, 1, 12, 0)), (45000.25, dt.datetime(2023, 3, 15, 6, 0)), (1.75, dt.datetime(1900, 1, 1, 18, 0)),
                         (45000.125, dt.datetime(2023, 3, 15, 3, 0))):
        got = conv('number_to_datetime', serial)
        if got != want:
            wrong.append(f'{serial} -> {got!r} instead of {want!r}')
    ctx.expect(not wrong, n2d, 'time of day: seconds = fraction * 86400', 'the fraction of a serial is not converted to seconds with the factor 86400: ' + '; '.join(wrong))
    # inverse
    for days in (0, 1, 57, 58, 59, 60, 99, 44998):
        want = days + 1 if days <= 58 else days + 2
        got = conv('datetime_to_number', day0 + dt.timedelta(days=days))
        ctx.expect(got == want and not isinstance(got, bool), d2n, f'datetime_to_number(epoch + {days} days)',
                   f'the date {days} days after 1900-01-01 gets serial {got!r}, expected {want} (1900-02-28 is day 58 -> serial 59, '
                   f'1900-03-01 is day 59 -> serial 61): the two conversions are not inverse to each other')
    wrong = []
    for when, want in ((dt.datetime(2023, 3, 15, 12, 0), 45000.5), (dt.datetime(1900, 3, 1, 6, 0), 61.25), (dt.datetime(1900, 1, 1, 18, 0), 1.75)):
        got = conv('datetime_to_number', when)
        if not (isinstance(got, (int, float)) and not isinstance(got, bool) and abs(got - want) < 1e-9):
            wrong.append(f'{when.isoformat()} -> {got!r} instead of {want}')
    ctx.expect(not wrong, d2n, 'time of day: serial fraction = seconds / 86400',
               'the seconds of the time of day do not enter the serial with the factor 1/86400 (noon must add 0.5): ' + '; '.join(wrong))
    ctx.floor(18, 'critical serials/day counts + time-of-day coefficients')


def _date_call(ctx, name, args):
    from . import values as V
    models = dict(V.date_models())
    models['ext:dateutil.rrule.rrule'] = _rrule_model
    out = V.call(ctx, name, args, models=models)
    got = V.norm(out.value) if out.end == 'return' else (out.end, V.norm(out.value))
    if isinstance(got, tuple) and got and got[0] == 'Number':
        got = got[1]
    if isinstance(got, tuple) and len(got) == 2 and got[0] == 'DateTime':
        import datetime as dt
        d = got[1]
        if isinstance(d, dt.datetime) and d.time() == dt.time(0, 0):
            # a date result: its Excel serial (1900-01-01 = 1, the phantom 1900-02-29 = 60 skipped)
            got = (d.date() - (dt.date(1899, 12, 30) if d.date() >= dt.date(1900, 3, 1) else dt.date(1899, 12, 31))).days
    return got


NUM_ERR = (('error', '#NUM!'), ('error-class', 'NumExcelError'))


def rule_2(ctx):
    """Epoch and year-range guards on values (date functions as the evaluator calls them): serial 1 = 1900-01-01 is a date,
    the day before is not; YEAR accepts 1900 .. 9999."""
    from . import values as V
    n = 0
    rows = [('DATE', [1900, 1, 1], 1), ('DATE', [1900, 1, 2], 2), ('DATE', [1900, 1, 0], NUM_ERR), ('DATE', [1900, 0, 31], NUM_ERR), ('DATE', [2024, 2, 29], _serial(2024, 2, 29)),
            ('DATE', [2023, 14, 1], _serial(2024, 2, 1)), ('DATE', [9999, 12, 31], _serial(9999, 12, 31)),
            ('EDATE', [_serial(1900, 3, 1), -2], 1), ('EDATE', [_serial(1900, 3, 1), -3], NUM_ERR), ('EDATE', [_serial(2024, 1, 31), 1], _serial(2024, 2, 29)),
            ('EOMONTH', [_serial(1900, 3, 15), -2], 31), ('EOMONTH', [_serial(1900, 2, 15) + 1, -2], NUM_ERR), ('EOMONTH', [_serial(2023, 1, 15), 1], _serial(2023, 2, 28)),
            ('YEAR', [1], 1900), ('YEAR', [_serial(9999, 12, 31)], 9999), ('YEAR', [_serial(2000, 6, 1)], 2000)]
    for name, args, want in rows:
        f = _reg(ctx, name)
        got = _date_call(ctx, name, [V.num(a) for a in args])
        ok = (got in want) if isinstance(want, tuple) and want and isinstance(want[0], tuple) else got == want
        n += 1
        ctx.expect(ok, f.node, f'{name}{tuple(args)!r}',
                   f'{name}{tuple(args)!r} gives {got!r}, expected {"#NUM!" if want is NUM_ERR else want!r}: serial 1 (1900-01-01) is the first valid date, '
                   'results before it are #NUM!, years 1900..9999 are valid')
    ctx.floor(n, 'guard witnesses')


WEEKDAY_FIRST = {1: 6, 2: 0, 11: 0, 12: 1, 13: 2, 14: 3, 15: 4, 16: 5, 17: 6}     # return type -> weekday() of the day numbered 1


def rule_3(ctx):
    """WEEKDAY for every supported return type on the seven days of a known week (2024-01-01 is a Monday): the named first
    day is 1 (type 3: Monday is 0), unknown types give #NUM!."""
    from . import values as V
    f = _reg(ctx, 'WEEKDAY')
    monday = _serial(2024, 1, 1)
    for rtype in (None, 1, 2, 3, 11, 12, 13, 14, 15, 16, 17):
        wrong = []
        for d in range(7):          # d = weekday() of the date, Monday = 0
            args = [V.num(monday + d)] + ([V.num(rtype)] if rtype is not None else [])
            got = _date_call(ctx, 'WEEKDAY', args)
            want = d if rtype == 3 else ((d - WEEKDAY_FIRST[rtype or 1]) % 7) + 1
            if got != want:
                wrong.append(f'{("Mon", "Tue", "Wed", "Thu", "Fri", "Sat", "Sun")[d]}: {got!r} instead of {want}')
        ctx.expect(not wrong, f.node, f'WEEKDAY return type {rtype if rtype is not None else "omitted"}', '; '.join(wrong[:4]))
    for bad in (0, 4, 10, 18):
        got = _date_call(ctx, 'WEEKDAY', [V.num(monday), V.num(bad)])
        ctx.expect(got in NUM_ERR, f.node, f'WEEKDAY return type {bad} is rejected', f'WEEKDAY(d, {bad}) gives {got!r}, expected #NUM!')
    ctx.floor(15, 'return types')


def rule_4(ctx):
    """Serials with a time of day: YEAR, MONTH, DAY, WEEKDAY, ISOWEEKNUM, EDATE, EOMONTH of serial + 0.9 equal those of the
    whole serial (the fraction is the time, it never rolls the date over)."""
    from . import values as V
    n = 0
    for serial in (_serial(2024, 2, 29), _serial(2023, 12, 31), 61, _serial(1999, 1, 1)):
        for name, extra in (('YEAR', []), ('MONTH', []), ('DAY', []), ('WEEKDAY', []), ('ISOWEEKNUM', []), ('EDATE', [1]), ('EOMONTH', [1])):
            f = _reg(ctx, name)
            whole = _date_call(ctx, name, [V.num(serial)] + [V.num(x) for x in extra])
            frac = _date_call(ctx, name, [V.num(serial + 0.9)] + [V.num(x) for x in extra])
            n += 1
            ctx.expect(whole == frac and isinstance(whole, (int, float)), f.node, f'{name} ignores the time of day of serial {serial}',
                       f'{name}({serial + 0.9}) gives {frac!r} but {name}({serial}) gives {whole!r}')
    import datetime as dt
    for (y, m, d) in ((2024, 2, 29), (1900, 3, 1), (1999, 12, 31), (2023, 7, 4)):
        s_ = _serial(y, m, d)
        for name, want in (('YEAR', y), ('MONTH', m), ('DAY', d), ('ISOWEEKNUM', dt.date(y, m, d).isocalendar()[1])):
            got = _date_call(ctx, name, [V.num(s_)])
            n += 1
            ctx.expect(got == want, _reg(ctx, name).node, f'{name} of {y}-{m:02d}-{d:02d}', f'{name}({s_}) gives {got!r}, expected {want}')
    ctx.floor(n, 'truncation / calendar field witnesses')


def rule_5(ctx):
    f = _reg(ctx, 'YEARFRAC')
    fn = f.node
    p = func_params(fn)

    class _DT(PyModel):
        def __init__(self, label, days):
            self.label = label
            self.days = days
            self.value = self

        def __lt__(self, o):
            return self.days < getattr(o, 'days', -10**9)

        def __gt__(self, o):
            return self.days > getattr(o, 'days', -10**9)

        def __sub__(self, o):
            return Rec(days=self.days - o.days)

    class _Ep(PyModel):
        days = 0
    for basis, want in ((0, ('lib', '30e360_matu')), (1, ('lib', 'act_afb')), (2, ('div', 360)), (3, ('div', 365)), (4, ('lib', '30e360')),
                        (5, ('raise',)), (-1, ('raise',))):
        for swap in (False, True):
            a, b = _DT('start', 100), _DT('end', 465)
            if swap:
                a, b = b, a
            seen = {}

            def yf(s, e, conv):
                seen['conv'] = conv
                seen['order'] = (s.label, e.label)
                return Opaque('yf')
            it = Interp(ctx.a, f.module, {p[0]: a, p[1]: b, p[2]: basis}, call_models={'ext:yearfrac.yearfrac': yf})
            it.env['utils'] = Rec(EXCEL_EPOCH=_Ep())
            # BinOp on PyModel values: let python do it
            orig_ev = it.ev

            def ev(n, _orig=orig_ev, _it=it):
                if isinstance(n, ast.BinOp) and isinstance(n.op, ast.Sub):
                    l, r = _it.ev(n.left), _it.ev(n.right)
                    if isinstance(l, _DT) and isinstance(r, _DT):
                        return l - r
                if isinstance(n, ast.Compare) and len(n.ops) == 1:
                    l, r = _it.ev(n.left), _it.ev(n.comparators[0])
                    if isinstance(l, _DT) and isinstance(r, (_DT, _Ep)):
                        return {ast.Lt: l.days < r.days, ast.Gt: l.days > r.days, ast.LtE: l.days <= r.days,
                                ast.GtE: l.days >= r.days}.get(type(n.ops[0]), False)
                return _orig(n)
            it.ev = ev
            out = it.run(fn.body)
            label = f'YEARFRAC basis {basis}{" (dates reversed)" if swap else ""}'
            if want[0] == 'raise':
                ok = out.end == 'raise' and isinstance(out.value, Ref) and is_excel_error_ref(ctx, out.value.ref)
                got = f'{out.end} {out.value!r}'
            elif want[0] == 'lib':
                ok = seen.get('conv') == want[1] and seen.get('order') == ('start', 'end')
                got = f'convention {seen.get("conv")!r}, order {seen.get("order")}'
            else:
                ok = out.end == 'return' and out.value == 365 / want[1]
                got = f'{out.end} {out.value!r}'
            ctx.expect(ok, fn, label, f'{label}: {got}; expected {want} over the chronologically ordered dates')
    ctx.floor(14, 'basis x order')


def _rrule_model(freq, dtstart=None, until=None, **kw):
    """dateutil.rrule.rrule(freq, dtstart, until) for YEARLY / MONTHLY / DAILY, interval 1: the occurrences dtstart + k periods that
    exist in the calendar (a day that a month / year does not have is skipped), up to and including `until` (documented behaviour)."""
    import datetime as dt
    name = freq.ref.rpartition('.')[2] if isinstance(freq, Ref) else str(freq)
    if kw or not isinstance(dtstart, dt.datetime) or not isinstance(until, dt.datetime):
        raise Unmodelled('rrule with other arguments than (freq, dtstart, until)')
    out = []
    k = 0
    while True:
        if name == 'DAILY':
            cand = dtstart + dt.timedelta(days=k)
        elif name == 'MONTHLY':
            mm_ = dtstart.month - 1 + k
            try:
                cand = dtstart.replace(year=dtstart.year + mm_ // 12, month=mm_ % 12 + 1)
            except ValueError:
                cand = None
                if dtstart.year + mm_ // 12 > until.year + 1:
                    break
        elif name == 'YEARLY':
            try:
                cand = dtstart.replace(year=dtstart.year + k)
            except ValueError:
                cand = None
                if dtstart.year + k > until.year + 1:
                    break
        else:
            raise Unmodelled(f'rrule frequency {name}')
        k += 1
        if cand is None:
            continue
        if cand > until:
            break
        out.append(cand)
        if len(out) > 200000:
            raise Unmodelled('rrule with more than 200000 occurrences')
    return out


def _serial(y, m, d):
    import datetime as dt
    return (dt.date(y, m, d) - dt.date(1899, 12, 30)).days


def rule_6(ctx):
    """DATEDIF as the evaluator calls it on critical date pairs: one day before / on / after an anniversary, across leap years,
    for the complete-years, complete-months and days units (the calendar recurrence of dateutil is modelled by its documented
    semantics; everything else is the function as written)."""
    import datetime as dt
    from . import values as V
    f = V.registered(ctx, 'DATEDIF')

    def years(a, b):
        n = b.year - a.year
        return n - 1 if (b.month, b.day) < (a.month, a.day) else n

    def months(a, b):
        n = (b.year - a.year) * 12 + b.month - a.month
        return n - 1 if b.day < a.day else n
    pairs = [((2012, 3, 1), (2013, 2, 28)), ((2012, 3, 1), (2013, 3, 1)), ((2012, 3, 1), (2013, 3, 2)), ((2011, 6, 15), (2012, 6, 14)),
             ((2011, 6, 15), (2012, 6, 15)), ((2011, 6, 15), (2012, 6, 16)), ((2000, 1, 28), (2003, 1, 27)), ((2000, 1, 28), (2003, 1, 28)),
             ((2015, 12, 20), (2016, 12, 19)), ((2015, 12, 20), (2016, 12, 20)), ((2001, 5, 10), (2001, 5, 10)), ((1999, 7, 4), (2004, 7, 3))]
    n = 0
    for a, b in pairs:
        da, db = dt.date(*a), dt.date(*b)
        for unit, want in (('Y', years(da, db)), ('M', months(da, db)), ('D', (db - da).days)):
            out = V.call(ctx, 'DATEDIF', [V.num(_serial(*a)), V.num(_serial(*b)), V.text(unit)], models={'ext:dateutil.rrule.rrule': _rrule_model})
            got = V.norm(out.value) if out.end == 'return' else f'<{out.end} {out.value!r}>'
            if isinstance(got, tuple) and got and got[0] == 'Number':
                got = got[1]
            n += 1
            ctx.expect(got == want, f.node, f'DATEDIF({da.isoformat()}, {db.isoformat()}, "{unit}")',
                       f'DATEDIF({da.isoformat()}, {db.isoformat()}, "{unit}") gives {got!r}, expected {want!r}: complete years / months are counted by '
                       'calendar anniversaries (month and day), days by the difference of the serials')
    ctx.floor(n, 'date pairs x units')


DAY_CELLS = {
    'A1': '=DATE(1900,3,1)', 'B1': '=DATE(1900,2,28)', 'C1': '=DATE(2024,3,1)', 'D1': '=DATE(2023,12,31)', 'E1': 45000, 'F1': 44000.25,
    'R1': '=DAYS(A1,B1)', 'R2': '=A1-B1', 'R3': '=A1-59', 'R4': '=DAYS(C1,D1)', 'R5': '=C1-D1', 'R6': '=DAYS(DATE(1900,12,31),DATE(1900,1,1))',
    'R7': '=DAYS(B1,A1)', 'R8': '=DAYS(E1,44000)', 'R9': '=DAYS(61,59)', 'R10': '=DATE(1900,3,1)-DATE(1900,1,1)', 'R11': '=DAYS(C1,A1)',
    'R12': '=C1-A1', 'R13': '=DAYS(A1,1)', 'R14': '=A1-B1+D1-C1', 'R15': '=DAYS(DATE(2000,3,1),DATE(2000,2,1))', 'R16': '=DATE(2001,3,1)-DATE(2001,2,1)',
    'R17': '=YEAR(A1)&"-"&MONTH(B1)&"-"&DAY(B1)', 'R18': '=DAYS(45000,E1)',
}
DAY_EXPECTED = {'R1': 2, 'R2': 2, 'R3': 2, 'R4': 61, 'R5': 61, 'R6': 365, 'R7': -2, 'R8': 1000, 'R9': 2, 'R10': 60, 'R11': 45352 - 61, 'R12': 45352 - 61,
                'R13': 60, 'R14': 2 - 61, 'R15': 29, 'R16': 28, 'R17': '1900-2-28', 'R18': 0}


def rule_7(ctx):
    """A witness workbook, interpreted as written: DAYS and the subtraction of dates - dates built by DATE, held in cells, given as
    serials, on both sides of the fictitious 1900-02-29 and across leap years - equal the difference of the serial numbers."""
    from . import workbook as W
    from . import scenarios as S
    from . import values as V
    from .c10 import _as_value
    anchor = _reg(ctx, 'DAYS').node
    wb = W.Workbook(ctx, DAY_CELLS, models=V.date_models())
    for a, w in DAY_EXPECTED.items():
        got = wb.value('Sheet1!' + a)
        if isinstance(got, tuple) and got and got[0] == 'error-class':
            got = ('error', W.error_code(ctx, got[1]))
        ctx.expect(S.same(got, _as_value(w)), anchor, f'day differences: {DAY_CELLS[a]}',
                   f'{a} = {DAY_CELLS[a]} (A1 = 1900-03-01 = serial 61, B1 = 1900-02-28 = serial 59, C1 = 2024-03-01 = 45352, D1 = 2023-12-31) '
                   f'evaluates to {got!r}, expected {w!r}: the difference of two dates is the difference of their serial numbers')
    ctx.floor(18, 'day-difference cells')


DATE_CARRIES = [(1900, 0, 32), (1900, 0, 60), (1900, -1, 100), (1900, -26, 1000), (1900, -11, 36525), (1900, 1, 1), (1901, -11, 1), (1901, -12, 32),
                (2024, 14, 1), (2024, 0, 1), (2024, -11, 15), (2023, 2, 29), (2024, 1, 366), (2024, 3, 0), (2024, 3, -1), (2000, 25, 45), (1999, 12, 32),
                (2010, -24, -30), (1900, 13, 1), (9999, 12, 31), (2100, 2, 29), (2000, 2, 30), (1900, 12, 31), (1903, -35, 1)]
DATE_BEFORE_EPOCH = [(1900, 1, 0), (1900, 0, 31), (1901, -12, 31), (1900, -5, 1)]
BOUNDARY_YEARS = [1999, 2004, 2009, 2014, 2015, 2020, 2023, 2024, 2099, 2100, 2200, 2300, 2400, 9998]


def rule_8(ctx):
    """The calendar, row by row: DATE carrying months and days far outside their ranges (also back into range across the epoch),
    and YEAR / MONTH / DAY / ISOWEEKNUM / WEEKDAY of the serials around year ends - century years that are and are not leap
    years included - against the proleptic Gregorian calendar of Python's datetime (with Excel's serial 60 convention)."""
    import datetime as dt
    from . import values as V

    def serial(d):
        n = (d - dt.date(1899, 12, 31)).days
        return n + 1 if d >= dt.date(1900, 3, 1) else n
    models = V.date_models()
    f = V.registered(ctx, 'DATE')
    n = 0
    for y, m, d in DATE_CARRIES + DATE_BEFORE_EPOCH:
        out = V.call(ctx, 'DATE', [V.num(y), V.num(m), V.num(d)], models=models)
        got = V.norm(out.value) if out.end == 'return' else f'<{out.end} {V.norm(out.value)!r}>'
        if (y, m, d) in DATE_BEFORE_EPOCH:
            want = '#NUM!'
            ok = got in (('error', '#NUM!'), ('error-class', 'NumExcelError'))
        else:
            y2, m2 = y + (m - 1) // 12, (m - 1) % 12 + 1
            day = dt.date(y2, m2, 1) + dt.timedelta(days=d - 1)
            want = serial(day)
            val = got[1] if isinstance(got, tuple) and len(got) == 2 and got[0] in ('Number', 'DateTime') else got
            if isinstance(val, dt.datetime):
                val = serial(val.date()) if val.time() == dt.time.min else val
            ok = val == want
        n += 1
        ctx.expect(ok, f.node, f'DATE({y},{m},{d})', f'DATE({y},{m},{d}) gives {got!r}, expected {want!r}: months carry into years and days into months in both '
                   'directions, the result is what counts - before 1900-01-01 it is #NUM!, otherwise the serial of that day')
    years = BOUNDARY_YEARS if ctx.tier != 'quick' else BOUNDARY_YEARS[::2] + [2100, 2200]
    for y in years:
        for off in range(-4, 4):
            day = dt.date(y, 12, 31) + dt.timedelta(days=off + 1)
            if day.year > 9999:
                continue
            s_ = serial(day)
            for name, want in (('YEAR', day.year), ('MONTH', day.month), ('DAY', day.day), ('ISOWEEKNUM', day.isocalendar()[1]), ('WEEKDAY', day.isoweekday() % 7 + 1)):
                fn = V.registered(ctx, name)
                out = V.call(ctx, name, [V.num(s_)], models=models)
                got = V.norm(out.value) if out.end == 'return' else f'<{out.end} {V.norm(out.value)!r}>'
                val = got[1] if isinstance(got, tuple) and len(got) == 2 and got[0] == 'Number' else got
                n += 1
                ctx.expect(val == want and not isinstance(val, bool), fn.node, f'{name}({s_}) [{day.isoformat()}]',
                           f'{name}({s_}) gives {got!r}; serial {s_} is {day.isoformat()}, a {day.strftime("%A")}, whose {name.lower()} is {want}')
    # calls made one after the other in ONE process give what each gives in a process of its own
    from xlsa.guards import World
    seq = []
    for s_ in (43845, 43861, 45351, 59, 61, 36526):
        seq += [('DAY', (s_,)), ('MONTH', (s_,)), ('EOMONTH', (s_, 0)), ('DAY', (s_,)), ('EDATE', (s_, 1)), ('MONTH', (s_,)), ('YEAR', (s_,)), ('EOMONTH', (s_, 1)),
                ('DAY', (s_,)), ('WEEKDAY', (s_,)), ('ISOWEEKNUM', (s_,)), ('EDATE', (s_, -1)), ('DAY', (s_,)), ('YEAR', (s_,))]
    shared = World()

    def outcome(name, args, world):
        out = V.call(ctx, name, [V.num(a) for a in args], models=models, world=world)
        got = V.norm(out.value) if out.end == 'return' else f'<{out.end} {V.norm(out.value)!r}>'
        if isinstance(got, tuple) and len(got) == 2 and got[0] == 'DateTime' and isinstance(got[1], dt.datetime):
            return ('serial', serial(got[1].date()))
        return got
    alone_cache = {}
    for i, (name, args) in enumerate(seq):
        if (name, args) not in alone_cache:
            alone_cache[(name, args)] = outcome(name, args, None)
        got = outcome(name, args, shared)
        n += 1
        ctx.expect(got == alone_cache[(name, args)], V.registered(ctx, name).node, f'call {i + 1} of a sequence in one process: {name}{args!r}',
                   f'{name}{args!r} gives {got!r} as call {i + 1} of a sequence of date calls in one process ({", ".join(f"{n_}{a_!r}" for n_, a_ in seq[max(0, i - 4):i])} '
                   f'before it) and {alone_cache[(name, args)]!r} on its own: what one call computed is no business of the next')
    # a workbook saved with the 1904 date system was loaded earlier in the process: models built from serial numbers of the
    # 1900 system - this one, one compiled before that load, one loaded afterwards - still read them in the 1900 system
    from . import workbook as W
    from . import scenarios as S
    cal = {'A1': 43831, 'A2': 61, 'A3': 59, 'B1': '=YEAR(A1)', 'B2': '=MONTH(A1)&"-"&DAY(A1)', 'B3': '=WEEKDAY(A1,2)', 'B4': '=YEAR(A2)&"-"&MONTH(A2)&"-"&DAY(A2)',
           'B5': '=DAY(A3)', 'B6': '=EOMONTH(A1,0)', 'B7': '=EDATE(A1,1)', 'B8': '=ISOWEEKNUM(A1)', 'B9': '=DATE(2020,1,1)-A1'}
    cwant = {'B1': 2020, 'B2': '1-1', 'B3': 3, 'B4': '1900-3-1', 'B5': 28, 'B6': 43861, 'B7': 43862, 'B8': 1, 'B9': 0}
    before = W.Workbook(ctx, cal, models=models)
    before.value('Sheet1!B1')
    mac = W.Workbook(ctx, sheets={'Log': {'A1': 42369, 'B1': '=A1+1'}}, date1904=True, world=before.world, models=models)
    mac.value('Log!B1')
    for bname, make in (('compiled before that load', lambda: before), ('built after it', lambda: W.Workbook(ctx, cal, world=before.world, models=models)),
                        ('loaded from a 1900-system file after it', lambda: W.Workbook(ctx, sheets={'Sheet1': cal}, world=before.world, models=models))):
        book = make()
        for a, w in cwant.items():
            got = book.value('Sheet1!' + a)
            if isinstance(got, tuple) and len(got) == 2 and got[0] == 'DateTime' and isinstance(got[1], dt.datetime):
                got = ('Number', serial(got[1].date()))
            n += 1
            ctx.expect(S.same(got, ('Number', w) if not isinstance(w, str) else ('Text', w)), f.node, f'{cal[a]} in a model {bname} of a 1904-system workbook',
                       f'{a} = {cal[a]} (A1 = 43831, A2 = 61, A3 = 59) evaluates to {got!r} in a model {bname} of a workbook saved with the 1904 date system; '
                       f'expected {w!r}: serial 1 is 1900-01-01 for every model that was not read from such a file')
    ctx.floor(400, 'calendar rows')


RULES = [
    ('C18.1', 'serial <-> date: leap-day offsets at critical points, time-of-day coefficients', rule_1),
    ('C18.2', 'epoch and year-range guards', rule_2),
    ('C18.3', 'WEEKDAY return-type tables', rule_3),
    ('C18.4', 'serials are truncated alike', rule_4),
    ('C18.5', 'YEARFRAC basis dispatch', rule_5),
    ('C18.6', 'DATEDIF on critical date pairs (anniversary -1/0/+1 day, leap years) through the registered wrapper', rule_6),
    ('C18.7', 'witness workbook: DAYS and date subtraction equal the difference of the serials', rule_7),
    ('C18.8', 'calendar rows: DATE carries across the epoch, calendar fields around year ends of ordinary, leap and century years', rule_8),
]
