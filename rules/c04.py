"""C04 - evaluation always reflects the current inputs (structural part)."""
import ast

from xlsa import Unmodelled, AnchorMissing
from xlsa.load import walk_local, names_in, dotted
from xlsa import flow
from .common import func_params, value_returns
from . import evalcore

PROPERTY = 'C04'
EXPLANATION = (
    'Decided from source: (C04.1) nothing an evaluation writes back (cell.value, need_update, XLRange.value) is '
    "read by the evaluation path, except the value of a cell under the dominating test 'no formula / formula not to "
    "be evaluated' (semantic cell-state exclusion); (C04.2) every memo read on the evaluation path lives on an "
    'object created afresh inside each top-level evaluate() call; no memoising decorator on the path; nothing that '
    'depends on the evaluation is stored on a formula node (they live as long as the model); (C04.3) the cells map '
    'only ever receives cell objects; (C04.4) Model.set_cell_value / get_cell_value / Evaluator.evaluate '
    'interpreted on abstract models - a compiled one (the name is bound to the cell object of the cells map) and an '
    'extracted one (the name holds its own copy): a value set through an address, a defined name or a cell object '
    'lands in the cell object of the cells map, is read back by every spelling, evaluate resolves a name to its '
    'cell, stores the result there and reads inputs from there; (C04.5) Evaluator.evaluate interpreted on witness '
    'models: a failed and a successful evaluation leave the evaluator as they found it, the same cells evaluate '
    'normally afterwards.'
    ' (C04.6) histories of set_cell_value / evaluate on a witness workbook (chains, diamond, ranges over formula cells, lazy IF/AND/OR arguments) interpreted end to end: every evaluation equals a freshly compiled model with the current inputs and is stored.'
    ' (C04.6) also histories through XLCell addresses and results that are error values.')
NOT_DECIDED = 'equality of the values with those of a freshly compiled model'
TRUSTED = ['receiver typing is origin-based over this package only (cells map subscripts, constructor calls)', 'workbook scenarios: pandas storage of range arrays as row-major rows, numpy on Python numbers (IEEE results, 64-bit integer wrap), dateutil.parser.parse rejecting texts that are no dates, openpyxl address arithmetic, inspect.signature built from the FunctionDef']

WRITTEN_BACK = {'value', 'need_update'}


def _derives_from_map(expr, fn, mapattr):
    """Does the object expression derive from a subscript of a `.<mapattr>` map (origin-based typing)?"""
    def has(e):
        return any(isinstance(x, ast.Subscript) and isinstance(x.value, ast.Attribute) and x.value.attr == mapattr
                   for x in ast.walk(e))
    if has(expr):
        return True
    seen = set()
    work = list(names_in(expr))
    while work:
        nm = work.pop()
        if nm in seen:
            continue
        seen.add(nm)
        for n in walk_local(fn):
            if isinstance(n, ast.Assign) and any(isinstance(t, ast.Name) and t.id == nm for t in n.targets):
                if has(n.value):
                    return True
                if isinstance(n.value, (ast.Name, ast.Attribute, ast.Subscript)):
                    work.extend(names_in(n.value))
    return False


def _derives_from_cells(expr, fn):
    return _derives_from_map(expr, fn, 'cells')


def rule_1(ctx):
    n = 0
    for m, qual, fn in evalcore.core_functions(ctx):
        for node in walk_local(fn):
            if isinstance(node, ast.Attribute) and isinstance(node.ctx, ast.Load):
                if node.attr == 'need_update':
                    n += 1
                    ctx.bad(node, f'read of .need_update in {qual}',
                            'the evaluation path reads need_update: results would be reused instead of recomputed '
                            'after an input changes')
                elif node.attr == 'value' and qual in ('Evaluator.evaluate', 'EvaluatorContext.eval_cell'):
                    if _derives_from_cells(node.value, fn):
                        n += 1
                        # the read must be unreachable for a cell with a live formula (semantic evaluation of the path
                        # conditions on an abstract cell: robust against De Morgan, hoisting, early returns)
                        ex = evalcore.site_excluded_for(ctx, m, fn, node, 'live formula', evalcore.class_of_method(m, qual))
                        if ex is None:
                            ctx.unmodelled(node, f'path condition of `{ast.unparse(node)[:40]}` cannot be evaluated for an abstract cell')
                            continue
                        ok = ex is True
                        ctx.expect(ok, node, 'read of the stored value of a cell from the cells map',
                                   'the stored value of a cell is returned without the dominating "cell has no formula" '
                                   'test: a formula cell would yield its stale, previously computed value')
                elif node.attr == 'value' and _derives_from_map(node.value, fn, 'ranges'):
                    n += 1
                    ctx.bad(node, f'read of XLRange.value in {qual}',
                            'the cached value of a range is read back instead of rebuilding the array from its cells')
    # the value returned for a formula cell is the freshly computed one
    em = ctx.mod('evaluator')
    ev = ctx.func('evaluator', 'Evaluator.evaluate')
    rets = value_returns(ev)
    last = rets[-1] if rets else None
    deps = flow.Deps(ev)
    fresh = False
    if last is not None:
        src = deps.closure(names_in(last.value))
        for a in walk_local(ev):
            if isinstance(a, ast.Assign) and isinstance(a.value, ast.Call) and isinstance(a.value.func, ast.Attribute) \
                    and a.value.func.attr == 'eval' and any(isinstance(t, ast.Name) and t.id in src for t in a.targets):
                fresh = True
    ctx.expect(fresh, ev, 'formula result comes from ast.eval on this call',
               'evaluate() does not return the value computed by evaluating the formula AST on this call')
    # RangeNode.eval rebuilds before caching
    am = ctx.mod('ast_nodes')
    rn = ctx.func('ast_nodes', 'RangeNode.eval')
    stores = [a for a in walk_local(rn) if isinstance(a, ast.Assign) and any(
        isinstance(t, ast.Attribute) and t.attr == 'value' for t in a.targets)]
    deps_rn = flow.Deps(rn)
    for a in stores:
        ok = isinstance(a.value, ast.Call) or (isinstance(a.value, ast.Name) and any(
            isinstance(x, ast.Assign) and isinstance(x.value, ast.Call) and any(isinstance(t, ast.Name) and t.id == a.value.id for t in x.targets)
            for x in walk_local(rn)))
        ctx.expect(ok, a, 'XLRange.value stored from a freshly built array',
                   'the range value written back is not a freshly constructed array')
    ctx.floor(2, 'reads of written-back state + freshness facts')


MEMO_DECOS = {'ext:functools.lru_cache', 'ext:functools.cache', 'ext:functools.cached_property'}


def rule_2(ctx):
    per_call = evalcore.context_classes(ctx)
    # per-call classes must only be constructed on the evaluation path and never stored on a long-lived object
    for cref in sorted(per_call):
        for m, call in evalcore.constructions(ctx, cref):
            st = flow.stmt_of(call)
            kept = isinstance(st, ast.Assign) and any(evalcore.self_attr(t) for t in st.targets)
            ctx.expect(not kept, call, f'{cref.split(":")[-1]}(...) not kept on a long-lived object',
                       'an evaluation context is stored on the evaluator/model: its memo would outlive the evaluate() call')
    n_memo = 0
    # containers on `self` that some function of the evaluation core writes into (outside __init__): only those can be memos;
    # a table that is never written (a class-level dispatch table read through self) is a constant
    written = set()
    for m, qual, fn in evalcore.core_functions(ctx):
        if qual.endswith('.__init__'):
            continue
        wcref = evalcore.class_of_method(m, qual)
        for node in walk_local(fn):
            tgt = None
            if isinstance(node, (ast.Assign, ast.AugAssign)):
                for t in (node.targets if isinstance(node, ast.Assign) else [node.target]):
                    if isinstance(t, ast.Subscript) and evalcore.self_attr(t.value):
                        tgt = evalcore.self_attr(t.value)
                    elif isinstance(t, ast.Attribute) and evalcore.self_attr(t):
                        tgt = evalcore.self_attr(t)         # the container itself is (re)bound during evaluation
            elif isinstance(node, ast.Call) and isinstance(node.func, ast.Attribute) \
                    and node.func.attr in ('setdefault', 'update', 'append', 'add', 'extend', 'insert', 'pop', 'popitem', 'clear') \
                    and evalcore.self_attr(node.func.value):
                tgt = evalcore.self_attr(node.func.value)
            if tgt:
                written.add((wcref, tgt))
    for m, qual, fn in evalcore.core_functions(ctx):
        cref = evalcore.class_of_method(m, qual)
        # memoising decorators
        for ref, d in ctx.res.decorators(fn):
            if ref in MEMO_DECOS:
                n_memo += 1
                ctx.bad(fn, f'memoising decorator on {qual}',
                        f'{ref.split(".")[-1]} on the evaluation path is keyed on objects, not on the current inputs: '
                        'results survive set_cell_value (and the cache keeps every key alive)')
        # check-then-return memo reads: `return self.X[k]` / `self.X.get(k)` flowing to a return
        for r in value_returns(fn):
            for x in ast.walk(r.value):
                attr = None
                if isinstance(x, ast.Subscript) and evalcore.self_attr(x.value):
                    attr = evalcore.self_attr(x.value)
                elif isinstance(x, ast.Call) and isinstance(x.func, ast.Attribute) and x.func.attr == 'get' \
                        and evalcore.self_attr(x.func.value):
                    attr = evalcore.self_attr(x.func.value)
                if attr and (cref, attr) in written:
                    n_memo += 1
                    ok = cref in per_call
                    ctx.expect(ok, x, f'memo read self.{attr}[...] in {qual}',
                               f'a memo kept on {cref.split(":")[-1]} (long-lived) is returned by the evaluation path: '
                               'after set_cell_value the stale result is served; only Model.set_cell_value could '
                               'invalidate it and it does not know the evaluators')
            # return of a local that was read from a self container
        # local alias: v = self.X[k] ... return v
        deps = flow.Deps(fn)
        for a in walk_local(fn):
            if isinstance(a, ast.Assign) and len(a.targets) == 1 and isinstance(a.targets[0], ast.Name):
                v = a.value
                attr = None
                if isinstance(v, ast.Subscript) and evalcore.self_attr(v.value):
                    attr = evalcore.self_attr(v.value)
                elif isinstance(v, ast.Call) and isinstance(v.func, ast.Attribute) and v.func.attr == 'get' \
                        and evalcore.self_attr(v.func.value):
                    attr = evalcore.self_attr(v.func.value)
                if attr and (cref, attr) in written and any(a.targets[0].id in deps.closure(names_in(r.value)) for r in value_returns(fn)):
                    n_memo += 1
                    ok = cref in per_call
                    ctx.expect(ok, a, f'memo read self.{attr}[...] in {qual}',
                               f'a memo kept on {cref.split(":")[-1]} (long-lived) feeds the value returned by the evaluation path')
    ctx.note(f'memo reads on the evaluation path: {n_memo}')
    # state kept on formula nodes (they live as long as the model)
    from . import corelemma
    corelemma.rule_node_state(ctx)
    ctx.floor(1, 'context constructions + memo reads')


def rule_3(ctx):
    n = 0
    for m in ctx.repo.modules.values():
        if m.name.startswith('xlfunctions'):
            continue
        for node in ast.walk(m.tree):
            if isinstance(node, ast.Assign):
                for t in node.targets:
                    if isinstance(t, ast.Subscript) and isinstance(t.value, ast.Attribute) and t.value.attr == 'cells':
                        n += 1
                        v = node.value
                        # chained assignment a = b = value handled by targets; value must be an object, not a class
                        ref = ctx.res.resolve(v, m) if isinstance(v, (ast.Name, ast.Attribute)) else None
                        mod_, obj = ctx.res.lookup(ref) if ref else (None, None)
                        is_class = isinstance(obj, ast.ClassDef)
                        ctx.expect(not is_class, node, f'store into cells map `{ast.unparse(node)[:60]}`',
                                   'the cells map receives a class object instead of a cell instance (the constructor '
                                   'call is missing): later reads of .value/.formula hit the class')
            elif isinstance(node, ast.Expr) and isinstance(node.value, ast.Tuple):
                # a dangling argument tuple right after an assignment of a bare class
                blk = flow._block_of(node)
                if blk:
                    _, _, lst, i = blk
                    if i > 0 and isinstance(lst[i - 1], ast.Assign) and isinstance(lst[i - 1].value, (ast.Name, ast.Attribute)):
                        ref = ctx.res.resolve(lst[i - 1].value, m)
                        _, obj = ctx.res.lookup(ref) if ref else (None, None)
                        if isinstance(obj, ast.ClassDef):
                            ctx.bad(node, 'discarded argument tuple after storing a class',
                                    'an expression statement holds the constructor arguments that were meant for the class stored above')
    ctx.floor(5, 'stores into a cells map')


def rule_4(ctx):
    """Model.set_cell_value / get_cell_value / Evaluator.evaluate interpreted on abstract models: a value set through an
    address, a defined name or a cell object lands in the cell object of the cells map - the one the evaluation reads -, is read
    back by every spelling, and the result of an evaluation is stored in that same object. The model of an extracted sub-model
    (the name's object is a separate copy of the cell's) is included: input changes must reach the cells map there too."""
    from xlsa.guards import Interp, Rec, World
    from xlsa.consteval import Ref
    mm = ctx.mod('model')
    em = ctx.mod('evaluator')
    setf, getf = mm.func('Model.set_cell_value'), mm.func('Model.get_cell_value')

    def cell(addr, value):
        return Rec(cls='pkg:xltypes:XLCell', address=addr, value=value, formula=None, defined_names=[], need_update=False)

    def copy_model(v):
        return v       # copy.copy of a native value
    for label, separate in (('compiled model (the name is bound to the cell object of the cells map)', False),
                            ('extracted model (the name holds its own copy of the cell)', True)):
        a1 = cell('S!A1', 1)
        named = cell('S!A1', 1) if separate else a1
        model = Rec(cls='pkg:model:Model', cells={'S!A1': a1, 'S!B1': cell('S!B1', 2)}, defined_names={'rate': named}, ranges={}, formulae={})
        world = World()

        def run(src, **env):
            env['m'] = model
            it = Interp(ctx.a, mm, env, inline_pkg=True, world=world, call_models={'ext:copy.copy': copy_model})
            return it.run(ast.parse(src).body)
        out = run("m.set_cell_value('rate', 10)")
        ctx.expect(out.end != 'raise' and a1.f['value'] == 10, setf, f'set through a defined name reaches the cells map: {label}',
                   f'after set_cell_value("rate", 10) the cell object of the cells map holds {a1.f["value"]!r} ({out.end}): the value was written '
                   'somewhere else (e.g. on the object held by defined_names), so formulas keep reading the old input')
        out = run("return m.get_cell_value('rate'), m.get_cell_value('S!A1')")
        ctx.expect(out.end == 'return' and tuple(out.value) == (10, 10), getf, f'get through name and address agree with the cells map: {label}',
                   f'get_cell_value("rate"), get_cell_value("S!A1") give {out.value!r}, expected (10, 10)')
        out = run("m.set_cell_value('S!A1', 11)\nreturn m.get_cell_value('rate')")
        ctx.expect(out.end == 'return' and out.value == 11 and a1.f['value'] == 11, setf, f'set through the address is seen through the name: {label}',
                   f'after set_cell_value("S!A1", 11), get_cell_value("rate") gives {out.value!r} and the cell holds {a1.f["value"]!r}')
        out = run("m.set_cell_value(c, 12)\nreturn m.get_cell_value(c)", c=cell('S!B1', None))
        ctx.expect(out.end == 'return' and out.value == 12 and model.f['cells']['S!B1'].f['value'] == 12, setf,
                   f'set / get through a cell object use the cells map: {label}',
                   f'set_cell_value(XLCell("S!B1"), 12) leaves {model.f["cells"]["S!B1"].f["value"]!r} in the cells map, get gives {out.value!r}')
        out = run("m.set_cell_value('S!N9', 5)\nreturn m.get_cell_value('S!N9')")
        newc = model.f['cells'].get('S!N9')
        ctx.expect(out.end == 'return' and out.value == 5 and isinstance(newc, Rec) and newc.f.get('cls') == 'pkg:xltypes:XLCell', setf,
                   f'a value set on a new address creates a cell object: {label}',
                   f'set_cell_value on a new address leaves {newc!r} in the cells map (get gives {out.value!r})')
    # evaluate: name -> address, result stored in the cell of the cells map
    ev = em.func('Evaluator.evaluate')
    from .corelemma import _Ast
    fcell = Rec(cls='pkg:xltypes:XLCell', address='S!C1', value=None, need_update=True, defined_names=[],
                formula=Rec(cls='pkg:xltypes:XLFormula', formula='=w', evaluate=True, terms=[], ast=_Ast(lambda c, a: None, [], result='fresh')))
    model = Rec(cls='pkg:model:Model', cells={'S!C1': fcell, 'S!A1': cell('S!A1', 3)}, defined_names={'total': fcell, 'inp': cell('S!A1', 99)}, ranges={}, formulae={})
    world = World()
    world.globals['pkg:xlfunctions.xl:FUNCTIONS'] = {}
    mk = Interp(ctx.a, em, {}, inline_pkg=True, world=world)
    evaluator = mk._construct('pkg:evaluator:Evaluator', [model], {})
    it = Interp(ctx.a, em, {'e': evaluator}, inline_pkg=True, world=world)
    out = it.run(ast.parse("return e.evaluate('total'), e.evaluate('inp')").body)
    ok = out.end == 'return' and out.value[0] == 'fresh' and fcell.f['value'] == 'fresh'
    ctx.expect(ok, ev, 'evaluate resolves a name to its cell and stores the result in the looked-up cell',
               f'evaluate("total") gives {out.value!r} and leaves {fcell.f["value"]!r} in the cell of the cells map, expected the fresh result in both')
    got = out.value[1] if out.end == 'return' else None
    val = got.f.get('value') if isinstance(got, Rec) else got
    ctx.expect(val == 3, ev, 'evaluate of a named input reads the cell of the cells map',
               f'evaluate("inp") gives {got!r}: the value must come from the cell object in the cells map (3), not from the object held by defined_names (99)')
    ctx.floor(12, 'set / get / evaluate scenarios')


def rule_5(ctx):
    """Evaluator-level state written by an evaluation is restored on every exit (shared with C06.2):
    otherwise an evaluation after a failed one differs from a fresh model (false cycle report)."""
    from . import c06
    c06.rule_2(ctx)


HISTORY_CELLS = {
    'A1': 5, 'A2': 100, 'A3': 7, 'B1': '=A1+1', 'B2': '=A2*2', 'B3': '=A3-1', 'C1': '=B1*2', 'D1': '=SUM(B1:B3)+A2', 'E1': '=D1-C1',
    'F1': '=IF(A1>0,B1,C1)', 'G1': '=AND(B1:B3)', 'H1': '=SUM(B1:B2,B3)', 'I1': '=IF(G1,"all",IF(OR(B1:B3),"some","none"))',
    'J1': '=MAX(A1:A3)&"|"&MIN(B1:B3)', 'K1': '=IF(NOT(A1>A3),A2,-A2)', 'L1': '=COUNT(A1:B3)+AVERAGE(B1:B3)',
    'M1': '=-A1+A2', 'N1': '=-(B1)%', 'O1': '=SUM(A1:A5)+COUNT(A1:A5)*1000',
    # results that are error values depend on the inputs like any other result
    'T1': '=IF(A1>0,A2/#REF!,A1*5)', 'U1': '=IF(A1>0,#NAME?,A2+1)', 'V1': '=T1+1', 'W1': '=IF(A1>0,1/0,#N/A)', 'X1': '=IF(ISERROR(U1),"err",U1)',
    'P1': '=A1&""', 'Q1': '=ISNUMBER(A1)', 'R1': '=ISBLANK(A9)&A9&"x"', 'S1': '=COUNT(A1:A3)',
}
_ALL = ['B1', 'C1', 'D1', 'E1', 'F1', 'G1', 'H1', 'I1', 'J1', 'K1', 'L1', 'M1', 'N1', 'O1', 'P1', 'Q1', 'R1', 'S1', 'T1', 'U1', 'V1', 'W1', 'X1']


def _history_steps(full):
    ev = [('eval', a) for a in _ALL]
    some = [('eval', a) for a in ('E1', 'F1', 'G1', 'H1', 'I1', 'K1')]
    steps = ev + [('set', 'A1', -1)] + ev + [('set', 'A3', 1), ('set', 'A4', 50)] + some + [('eval', 'O1'), ('eval', 'M1'), ('set', 'A2', 0), ('set', 'A1', 5)] + ev
    # values that are equal for Python but not for the spreadsheet: 1 / TRUE / 1.0, an absent cell / 0
    typed = [('eval', a) for a in ('P1', 'Q1', 'R1', 'S1')]
    steps += [('set', 'A1', 1)] + typed + [('set', 'A1', True)] + typed + [('set', 'A1', 1.0)] + typed + [('set', 'A9', 0)] + typed + [('set', 'A9', False), ('eval', 'R1')]
    if full:
        steps += [('set', 'A3', 9), ('eval', 'J1'), ('eval', 'B3'), ('set', 'A2', -3), ('eval', 'D1'), ('eval', 'E1'), ('set', 'A1', 0)] + ev
    return steps


def rule_6(ctx):
    """Histories of set_cell_value / evaluate on a whole witness workbook (chains, a diamond, ranges over formula cells, lazily
    evaluated IF / AND / OR arguments, text results), everything interpreted as written: after every evaluate the value equals
    what a freshly compiled model with the current inputs returns, and the model stores it; the same through Model.set_cell_value."""
    from . import scenarios as S
    anchor = ctx.mod('evaluator').func('Evaluator.evaluate')
    cache = {}
    why = 'Nothing kept from an earlier evaluation - on nodes, contexts, ranges, the evaluator or a module-level cache - may decide a later one.'
    n = S.check_history(ctx, anchor, 'history', HISTORY_CELLS, _history_steps(ctx.tier != 'quick'), why=why, cache=cache)
    short = [('eval', 'E1'), ('eval', 'I1'), ('set', 'A1', -1), ('eval', 'E1'), ('eval', 'F1'), ('set', 'A3', 1), ('eval', 'I1'), ('eval', 'G1')]
    n += S.check_history(ctx, anchor, 'history through the model', HISTORY_CELLS, short, why=why, cache=cache, through_model=True)
    cellwise = [('eval', 'E1'), ('eval', 'H1'), ('set', 'A1', -1), ('eval', 'E1'), ('eval', 'F1'), ('set', 'A4', 50), ('eval', 'O1'), ('set', 'A3', 1), ('eval', 'I1'),
                ('eval', 'H1'), ('set', 'A1', True), ('eval', 'P1'), ('eval', 'Q1')]
    n += S.check_history(ctx, anchor, 'history through XLCell addresses', HISTORY_CELLS, cellwise, why=why, cache=cache, through_model='cell')
    S.check_names_history(ctx, anchor, 'history with defined names',
                          'Setting an input through a defined name is equivalent to setting it through its address, and formulas that reach '
                          'the input through the name see the new value.')
    ctx.floor(100, 'evaluations compared with a freshly compiled model / hand-computed values')


RULES = [
    ('C04.1', 'nothing written back by an evaluation is read by a later one', rule_1),
    ('C04.2', 'memo scope: per-call objects only', rule_2),
    ('C04.3', 'the cells map holds cell objects', rule_3),
    ('C04.4', 'set/get/evaluate agree on name indirection and use the cells map', rule_4),
    ('C04.5', 'evaluator-level state is restored on every exit of an evaluation (shared with C06.2)', rule_5),
    ('C04.6', 'set/evaluate histories on a whole witness workbook equal freshly compiled models', rule_6),
]
