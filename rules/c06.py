"""C06 - cycles are reported, acyclic sharing never flagged, cheap failure (structural part)."""
import ast

from xlsa import Unmodelled, AnchorMissing
from xlsa.load import walk_local, names_in, dotted
from xlsa import flow
from .common import func_params, value_returns, raise_class
from . import evalcore

PROPERTY = 'C06'
EXPLANATION = (
    'Decided from source: (C06.1) a membership-test-then-raise guard exists on the cell->formula->cell recursion and '
    'the collection it consults is the same object at recursion depth n and n+1 (identity flow through the calls of '
    'the cycle: holder object passed down unchanged, collection created once, not per call); the guard tests the '
    'key that is inserted and precedes the insertion; (C06.2) stack discipline: every insertion is paired with a '
    'removal on every exit path (try/finally immediately after the insertion), so diamonds, repeated references '
    'and evaluations after a failed one cannot hit the guard; (C06.3) exception re-wrapping along the recursion is '
    'additive: the caught message is embedded with str(), never with repr()/!r, whose escaping doubles per level.'
    ' (C06.1/C06.2) are decided on witness models with the recursion interpreted as written (self reference and 3-cycle reported on re-entry, diamond / repeated reference evaluate, evaluator unchanged after a failed and after a successful evaluation) - whatever the spelling of the guard (inline, helper, context manager); (C06.3) covers every function an exception travels through (evaluator, nodes, validate_args, thunks); (C06.4) a reference node resolves its address against the current context.')
NOT_DECIDED = 'wall-clock promptness, memory limits'
TRUSTED = ['identity-flow model of the recursion Evaluator.evaluate -> ASTNode.eval -> context.eval_cell -> evaluate']


def _guards(ctx):
    """(module, qual, fn, If node, key expr, collection expr) for `if k in coll: raise` on the recursion."""
    out = []
    for m, qual, fn in evalcore.recursion_functions(ctx):
        for n in walk_local(fn):
            if not isinstance(n, ast.If) or not flow.only_raises(n.body):
                continue
            test = flow._expand_test(n.test, fn, n)
            if isinstance(test, ast.Compare) and len(test.ops) == 1 and isinstance(test.ops[0], ast.In):
                coll = evalcore.deref(test.comparators[0], fn)
                if evalcore.self_attr(coll):
                    out.append((m, qual, fn, n, test.left, coll))
    return out


def _holder_same_across_recursion(ctx, m, qual, attr):
    """Is `self.<attr>` of the method's class the same object at depth n and n+1?

    Returns (ok, reason)."""
    cref = evalcore.class_of_method(m, qual)
    per_call = evalcore.context_classes(ctx)
    em = ctx.mod('evaluator')
    # 1. the collection must be created once per holder (in __init__ only) and not rebound on the path
    inits = evalcore.attr_inits(ctx, cref).get(attr, [])
    if not inits:
        return False, f'self.{attr} is never initialised in {cref}'
    for meth, assign in inits:
        if meth.name != '__init__':
            return False, f'self.{attr} is re-created in {meth.name}() on every call'
    if cref in per_call:
        # the holder is a context: it is the same at depth n+1 only if the nested evaluate receives it,
        # or the collection object itself is handed to the new context
        ec = em.func('EvaluatorContext.eval_cell')
        for c in flow.calls_in(ec):
            if isinstance(c.func, ast.Attribute) and c.func.attr == 'evaluate':
                arg = c.args[1] if len(c.args) > 1 else next((k.value for k in c.keywords if k.arg == 'context'), None)
                if isinstance(arg, ast.Name) and arg.id == 'self':
                    return True, 'the context itself is passed to the nested evaluate'
        # constructor receives the collection?
        for cm, call in evalcore.constructions(ctx, 'pkg:evaluator:EvaluatorContext'):
            for a in list(call.args) + [k.value for k in call.keywords]:
                if isinstance(a, ast.Attribute) and a.attr == attr:
                    # and the initialiser uses the parameter
                    return True, 'the collection is handed to the new context'
        return False, (f'self.{attr} lives in the evaluation context, and a new context with a fresh '
                       f'collection is created for every nested cell (evaluate(addr, None) -> _get_context)')
    if cref == 'pkg:evaluator:Evaluator':
        # nested evaluation must call evaluate on the same evaluator object
        ec = em.func('EvaluatorContext.eval_cell')
        ok_call = False
        for c in flow.calls_in(ec):
            if isinstance(c.func, ast.Attribute) and c.func.attr == 'evaluate':
                recv = c.func.value
                if evalcore.self_attr(recv):
                    hold = evalcore.self_attr(recv)
                    inits_ctx = evalcore.attr_inits(ctx, 'pkg:evaluator:EvaluatorContext').get(hold, [])
                    from_param = any(meth.name == '__init__' and isinstance(a.value, ast.Name)
                                     and a.value.id in func_params(meth) for meth, a in inits_ctx)
                    cons = evalcore.constructions(ctx, 'pkg:evaluator:EvaluatorContext')
                    passes_self = bool(cons) and all(
                        call.args and isinstance(call.args[0], ast.Name) and call.args[0].id == 'self'
                        and call._func.startswith('Evaluator.') for _, call in cons)
                    if from_param and passes_self:
                        ok_call = True
        if ok_call:
            return True, 'the evaluator is passed down unchanged (context.evaluator is the constructing evaluator)'
        return False, 'nested evaluation does not provably call evaluate() on the same evaluator object'
    return False, f'holder class {cref} not modelled'


def rule_1(ctx):
    """Decided on witness models (the recursion Evaluator.evaluate -> formula tree -> context.eval_cell -> evaluate is interpreted
    as written): a self reference and a three-cell cycle are reported on re-entry, a diamond / repeated reference is not."""
    from . import corelemma
    n = corelemma.rule_evaluator_state(ctx, parts=('cycle', 'diamond'))
    guards = _guards(ctx)
    for m, qual, fn, ifn, key, coll in guards:
        ctx.note(f'recognised guard in {qual}: `{ast.unparse(ifn.test)[:60]}`')
    ctx.floor(4, 'cycle / diamond scenarios')


def _rule_1_syntactic(ctx):
    """Former shape analysis of the guard (identity flow of the guarded collection); kept for reference, not registered: the
    scenarios above decide the same facts on every spelling of the guard (inline, helper method, context manager)."""
    guards = _guards(ctx)
    em = ctx.mod('evaluator')
    ev = em.func('Evaluator.evaluate')
    if not guards:
        ctx.bad(ev, 'cycle guard exists', 'no "address already being evaluated -> raise" guard on the recursion: '
                                          'A1:=B1, B1:=A1 recurses without bound')
    effective = 0
    for m, qual, fn, ifn, key, coll in guards:
        attr = evalcore.self_attr(coll)
        ok, why = _holder_same_across_recursion(ctx, m, qual, attr)
        if ok:
            effective += 1
        ctx.expect(ok, ifn, f'cycle guard on self.{attr} sees its ancestors', why, why)
        # the guard raises something that reports a cycle
        msg = ' '.join(x.value for r in ifn.body for x in ast.walk(r) if isinstance(x, ast.Constant) and isinstance(x.value, str))
        ctx.expect('ycl' in msg or 'ircular' in msg, ifn, f'guard on self.{attr} reports a cycle',
                   'the exception raised by the guard does not mention a cycle / circular reference')
        # inserted key == tested key, insertion after the guard
        ins = [c for c in flow.calls_in(fn) if isinstance(c.func, ast.Attribute) and c.func.attr in ('append', 'add')
               and ast.dump(evalcore.deref(c.func.value, fn)) == ast.dump(coll)]
        ok = bool(ins) and all(ast.dump(c.args[0]) == ast.dump(key) and flow.pos(c) > flow.pos(ifn) for c in ins)
        ctx.expect(ok, ifn, f'guard on self.{attr}: tested key is the inserted key',
                   'the address inserted into the collection is not the one the guard tests (or is inserted before the test)')
        # the guard is reached for every formula cell: not nested under a condition other than the no-formula early return
        conds = [c for c in flow.path_conditions(ifn) if c.kind in ('if', 'while')]
        ctx.expect(not conds, ifn, f'guard on self.{attr} is unconditional for formula cells',
                   f'the guard only runs under `{ast.unparse(conds[0].test)[:40] if conds else ""}`')
    ctx.expect(effective >= 1, ev, 'at least one effective cycle guard',
               'no cycle guard consults a collection shared along the recursion: circular references recurse until the '
               'interpreter stack overflows')
    ctx.floor(2, 'guards on the recursion')


def _paired_insertions(ctx):
    """Insertions into long-lived (evaluator-level) collections on the recursion, with their pairing verdict."""
    out = []
    per_call = evalcore.context_classes(ctx)
    for m, qual, fn in evalcore.recursion_functions(ctx):
        cref = evalcore.class_of_method(m, qual)
        if cref in per_call:
            continue
        for c in flow.calls_in(fn):
            if isinstance(c.func, ast.Attribute) and c.func.attr in ('append', 'add') and evalcore.self_attr(evalcore.deref(c.func.value, fn)):
                st = flow.stmt_of(c)
                blk = flow._block_of(st)
                ok, why = False, 'insertion is not a statement of a block'
                if blk:
                    _, _, lst, i = blk
                    nxt = lst[i + 1] if i + 1 < len(lst) else None
                    coll_dump = ast.dump(evalcore.deref(c.func.value, fn))
                    if isinstance(nxt, ast.Try) and any(
                            isinstance(x, ast.Call) and isinstance(x.func, ast.Attribute) and x.func.attr in ('pop', 'remove', 'discard')
                            and ast.dump(evalcore.deref(x.func.value, fn)) == coll_dump for f_ in nxt.finalbody for x in ast.walk(f_)):
                        ok, why = True, ''
                    else:
                        removal = [x for x in ast.walk(fn) if isinstance(x, ast.Call) and isinstance(x.func, ast.Attribute)
                                   and x.func.attr in ('pop', 'remove', 'discard') and ast.dump(evalcore.deref(x.func.value, fn)) == coll_dump]
                        if not removal:
                            why = (f'`{ast.unparse(c)}` is never undone: a cell evaluated once stays marked, so a second '
                                   'reference (diamond, repeated reference) or a later evaluation reports a cycle')
                        else:
                            why = (f'the removal paired with `{ast.unparse(c)}` is not in a `finally` that directly follows the '
                                   'insertion: when the formula raises, the address stays on the stack and every later '
                                   'evaluation through it reports a false cycle')
                out.append((m, qual, fn, c, ok, why))
    return out


def rule_2(ctx):
    # decided on witness models: failed / successful evaluations leave the evaluator unchanged, diamonds evaluate, cycles are reported
    from . import corelemma
    n_sem = corelemma.rule_evaluator_state(ctx, parts=('restore',))
    ins = _paired_insertions(ctx)
    for m, qual, fn, c, ok, why in ins:
        ctx.note(f'insertion `{ast.unparse(c)[:50]}` in {qual}: {"paired with a removal in try/finally" if ok else "no syntactic try/finally pairing (decided by the scenarios)"}')
    # context-level (per-call) collections: re-entry excluded by a memo with the same lifetime
    em = ctx.mod('evaluator')
    ec = em.func('EvaluatorContext.eval_cell')
    appends = [c for c in flow.calls_in(ec) if isinstance(c.func, ast.Attribute) and c.func.attr == 'append']
    guards_here = [g for g in _guards(ctx) if g[1] == 'EvaluatorContext.eval_cell']
    for g in guards_here:
        # a raising guard on a per-context list needs a memo check before it, or pairing
        memo_first = any(isinstance(n, ast.If) and flow.pos(n) < flow.pos(g[3]) and flow.leaves_function(n.body)
                         for n in ec.body) or any(
            ref in ('ext:functools.lru_cache', 'ext:functools.cache') for ref, _ in ctx.res.decorators(ec))
        ctx.expect(memo_first, g[3], 'per-context guard is preceded by the memo lookup',
                   'a repeated reference to the same cell inside one formula reaches the per-context guard: false cycle report')
    if not ins:
        ctx.note('no syntactically recognised evaluator-level insertion on the recursion; the witness-model table above decides')
    ctx.floor(4, 'evaluator-state scenarios')


def _on_the_recursion(ctx):
    """Functions through which an exception of a nested cell evaluation travels upwards: the evaluator, the node classes, the
    argument-validating wrapper around every registered function, the thunk class and the functions that call thunks."""
    seen = set()
    out = []

    def add(m, qual, fn):
        if id(fn) not in seen:
            seen.add(id(fn))
            out.append((m, qual, fn))
    for m, qual, fn in evalcore.recursion_functions(ctx):
        add(m, qual, fn)
    for modname in ('evaluator', 'ast_nodes', 'xlfunctions.xl'):
        m = ctx.mod(modname)
        for qual, fn in m.funcs.items():
            add(m, qual, fn)
    fm = ctx.mod('xlfunctions.func_xltypes')
    for qual, fn in fm.funcs.items():
        if qual.startswith('Expr.') or qual.startswith('ValueExpr.'):
            add(fm, qual, fn)
    for f in ctx.a.registry:
        if any('XlExpr' in (ast.unparse(p.annotation) if getattr(p, 'annotation', None) is not None else '') for p in f.params):
            add(f.module, f.node.name, f.node)
    return out


def rule_3(ctx):
    n = 0
    for m, qual, fn in _on_the_recursion(ctx):
        for t in walk_local(fn):
            if not isinstance(t, ast.Try):
                continue
            for h in t.handlers:
                if not h.name:
                    continue
                raises = [r for s in h.body for r in ast.walk(s) if isinstance(r, ast.Raise) and r.exc is not None]
                for r in raises:
                    uses = [x for x in ast.walk(r.exc) if isinstance(x, ast.Name) and x.id == h.name]
                    if not uses:
                        continue
                    n += 1
                    bad = []
                    for x in ast.walk(r.exc):
                        if isinstance(x, ast.FormattedValue) and x.conversion == ord('r') and h.name in names_in(x.value):
                            bad.append(ast.unparse(x))
                        if isinstance(x, ast.Call) and isinstance(x.func, ast.Name) and x.func.id in ('repr', 'ascii') \
                                and x.args and h.name in names_in(x.args[0]):
                            bad.append(ast.unparse(x))
                        if isinstance(x, ast.BinOp) and isinstance(x.op, ast.Mod) and isinstance(x.left, ast.Constant) \
                                and isinstance(x.left.value, str) and '%r' in x.left.value and h.name in names_in(x.right):
                            bad.append('%r')
                        if isinstance(x, ast.Call) and isinstance(x.func, ast.Attribute) and x.func.attr == 'format' \
                                and isinstance(x.func.value, ast.Constant) and '!r' in str(x.func.value.value) \
                                and any(h.name in names_in(a) for a in x.args):
                            bad.append('{!r}')
                    ctx.expect(not bad, r, f're-wrap of `{h.name}` in {qual}',
                               f'the caught exception is embedded with {bad}: repr() escapes the quotes and backslashes of the '
                               'previous level again at every level, so the message size grows exponentially with the '
                               'length of the dependency chain')
    ctx.floor(1, 're-wrapping handlers on the recursion')


def rule_4(ctx):
    """The addresses the cycle guard compares are the addresses of the cells really being evaluated: a reference node
    resolves its address against the context of the current evaluation (shared with C03.3)."""
    from . import corelemma
    corelemma.rule_address_per_evaluation(ctx)
    corelemma.rule_node_state(ctx, only=('RangeNode',))
    ctx.floor(2, 'address resolution facts')


RULES = [
    ('C06.1', 'the cycle guard sees its ancestors (identity flow along the recursion)', rule_1),
    ('C06.2', 'stack discipline: insertions paired with removals on every exit', rule_2),
    ('C06.3', 'exception re-wrapping is additive (no repr of the caught exception)', rule_3),
    ('C06.4', 'guarded addresses are resolved per evaluation (shared with C03.3)', rule_4),
]
