"""C06 - cycles are reported, acyclic sharing never flagged, cheap failure (structural part)."""
import ast

from xlsa import Unmodelled, AnchorMissing
from xlsa.load import walk_local, names_in, dotted
from xlsa import flow
from .common import func_params, value_returns, raise_class
from . import evalcore

PROPERTY = 'C06'
EXPLANATION = (
    'Decided from source: (C06.1) a membership-test-then-raise guard exists on the cell->formula->cell recursion and '
    'the collection it consults is the same object at recursion depth n and n+1 (identity flow through the calls of '
    'the cycle: holder object passed down unchanged, collection created once, not per call); the guard tests the '
    'key that is inserted and precedes the insertion; (C06.2) stack discipline: every insertion is paired with a '
    'removal on every exit path (try/finally immediately after the insertion), so diamonds, repeated references '
    'and evaluations after a failed one cannot hit the guard; (C06.3) exception re-wrapping along the recursion is '
    'additive: the caught message is embedded with str(), never with repr()/!r, whose escaping doubles per level.'
    ' (C06.1/C06.2) are decided on witness models with the recursion interpreted as written (self reference and 3-cycle reported on re-entry, diamond / repeated reference evaluate, evaluator unchanged after a failed and after a successful evaluation) - whatever the spelling of the guard (inline, helper, context manager); (C06.3) covers every function an exception travels through (evaluator, nodes, validate_args, thunks); (C06.4) a reference node resolves its address against the current context.'
    ' (C06.5) witness workbooks with the real node classes and operator functions: cycles closed in either operand next to every kind of partner value, through function arguments and ranges, are reported by an exception whose text names the cycle after at most one entry per formula; diamonds over falsy precedents evaluate; doubling chains cost one evaluation per cell whatever the end value; failure reports grow additively.'
    ' (C06.5) also sheets whose titles are prefixes of one another, acyclic chains of 140 / 180 cells (also ending in an unknown function), cycles closed by an edit after the cells had been evaluated.')
NOT_DECIDED = 'wall-clock promptness, memory limits'
TRUSTED = ['identity-flow model of the recursion Evaluator.evaluate -> ASTNode.eval -> context.eval_cell -> evaluate', 'workbook scenarios: pandas storage of range arrays as row-major rows, numpy on Python numbers (IEEE results, 64-bit integer wrap), dateutil.parser.parse rejecting texts that are no dates, openpyxl address arithmetic, inspect.signature built from the FunctionDef']


def _guards(ctx):
    """(module, qual, fn, If node, key expr, collection expr) for `if k in coll: raise` on the recursion."""
    out = []
    for m, qual, fn in evalcore.recursion_functions(ctx):
        for n in walk_local(fn):
            if not isinstance(n, ast.If) or not flow.only_raises(n.body):
                continue
            test = flow._expand_test(n.test, fn, n)
            if isinstance(test, ast.Compare) and len(test.ops) == 1 and isinstance(test.ops[0], ast.In):
                coll = evalcore.deref(test.comparators[0], fn)
                if evalcore.self_attr(coll):
                    out.append((m, qual, fn, n, test.left, coll))
    return out


def rule_1(ctx):
    """Decided on witness models (the recursion Evaluator.evaluate -> formula tree -> context.eval_cell -> evaluate is interpreted
    as written): a self reference and a three-cell cycle are reported on re-entry, a diamond / repeated reference is not."""
    from . import corelemma
    n = corelemma.rule_evaluator_state(ctx, parts=('cycle', 'diamond'))
    guards = _guards(ctx)
    for m, qual, fn, ifn, key, coll in guards:
        ctx.note(f'recognised guard in {qual}: `{ast.unparse(ifn.test)[:60]}`')
    ctx.floor(4, 'cycle / diamond scenarios')


def _paired_insertions(ctx):
    """Insertions into long-lived (evaluator-level) collections on the recursion, with their pairing verdict."""
    out = []
    per_call = evalcore.context_classes(ctx)
    for m, qual, fn in evalcore.recursion_functions(ctx):
        cref = evalcore.class_of_method(m, qual)
        if cref in per_call:
            continue
        for c in flow.calls_in(fn):
            if isinstance(c.func, ast.Attribute) and c.func.attr in ('append', 'add') and evalcore.self_attr(evalcore.deref(c.func.value, fn)):
                st = flow.stmt_of(c)
                blk = flow._block_of(st)
                ok, why = False, 'insertion is not a statement of a block'
                if blk:
                    _, _, lst, i = blk
                    nxt = lst[i + 1] if i + 1 < len(lst) else None
                    coll_dump = ast.dump(evalcore.deref(c.func.value, fn))
                    if isinstance(nxt, ast.Try) and any(
                            isinstance(x, ast.Call) and isinstance(x.func, ast.Attribute) and x.func.attr in ('pop', 'remove', 'discard')
                            and ast.dump(evalcore.deref(x.func.value, fn)) == coll_dump for f_ in nxt.finalbody for x in ast.walk(f_)):
                        ok, why = True, ''
                    else:
                        removal = [x for x in ast.walk(fn) if isinstance(x, ast.Call) and isinstance(x.func, ast.Attribute)
                                   and x.func.attr in ('pop', 'remove', 'discard') and ast.dump(evalcore.deref(x.func.value, fn)) == coll_dump]
                        if not removal:
                            why = (f'`{ast.unparse(c)}` is never undone: a cell evaluated once stays marked, so a second '
                                   'reference (diamond, repeated reference) or a later evaluation reports a cycle')
                        else:
                            why = (f'the removal paired with `{ast.unparse(c)}` is not in a `finally` that directly follows the '
                                   'insertion: when the formula raises, the address stays on the stack and every later '
                                   'evaluation through it reports a false cycle')
                out.append((m, qual, fn, c, ok, why))
    return out


def rule_2(ctx):
    # decided on witness models: failed / successful evaluations leave the evaluator unchanged, diamonds evaluate, cycles are reported
    from . import corelemma
    n_sem = corelemma.rule_evaluator_state(ctx, parts=('restore',))
    ins = _paired_insertions(ctx)
    for m, qual, fn, c, ok, why in ins:
        ctx.note(f'insertion `{ast.unparse(c)[:50]}` in {qual}: {"paired with a removal in try/finally" if ok else "no syntactic try/finally pairing (decided by the scenarios)"}')
    # context-level (per-call) collections: re-entry excluded by a memo with the same lifetime
    em = ctx.mod('evaluator')
    ec = em.func('EvaluatorContext.eval_cell')
    appends = [c for c in flow.calls_in(ec) if isinstance(c.func, ast.Attribute) and c.func.attr == 'append']
    guards_here = [g for g in _guards(ctx) if g[1] == 'EvaluatorContext.eval_cell']
    for g in guards_here:
        # a raising guard on a per-context list needs a memo check before it, or pairing
        memo_first = any(isinstance(n, ast.If) and flow.pos(n) < flow.pos(g[3]) and flow.leaves_function(n.body)
                         for n in ec.body) or any(
            ref in ('ext:functools.lru_cache', 'ext:functools.cache') for ref, _ in ctx.res.decorators(ec))
        ctx.expect(memo_first, g[3], 'per-context guard is preceded by the memo lookup',
                   'a repeated reference to the same cell inside one formula reaches the per-context guard: false cycle report')
    if not ins:
        ctx.note('no syntactically recognised evaluator-level insertion on the recursion; the witness-model table above decides')
    ctx.floor(4, 'evaluator-state scenarios')


def _on_the_recursion(ctx):
    """Functions through which an exception of a nested cell evaluation travels upwards: the evaluator, the node classes, the
    argument-validating wrapper around every registered function, the thunk class and the functions that call thunks."""
    seen = set()
    out = []

    def add(m, qual, fn):
        if id(fn) not in seen:
            seen.add(id(fn))
            out.append((m, qual, fn))
    for m, qual, fn in evalcore.recursion_functions(ctx):
        add(m, qual, fn)
    for modname in ('evaluator', 'ast_nodes', 'xlfunctions.xl'):
        m = ctx.mod(modname)
        for qual, fn in m.funcs.items():
            add(m, qual, fn)
    fm = ctx.mod('xlfunctions.func_xltypes')
    for qual, fn in fm.funcs.items():
        if qual.startswith('Expr.') or qual.startswith('ValueExpr.'):
            add(fm, qual, fn)
    for f in ctx.a.registry:
        if any('XlExpr' in (ast.unparse(p.annotation) if getattr(p, 'annotation', None) is not None else '') for p in f.params):
            add(f.module, f.node.name, f.node)
    return out


def rule_3(ctx):
    n = 0
    for m, qual, fn in _on_the_recursion(ctx):
        for t in walk_local(fn):
            if not isinstance(t, ast.Try):
                continue
            for h in t.handlers:
                if not h.name:
                    continue
                raises = [r for s in h.body for r in ast.walk(s) if isinstance(r, ast.Raise) and r.exc is not None]
                for r in raises:
                    uses = [x for x in ast.walk(r.exc) if isinstance(x, ast.Name) and x.id == h.name]
                    if not uses:
                        continue
                    n += 1
                    bad = []
                    for x in ast.walk(r.exc):
                        if isinstance(x, ast.FormattedValue) and x.conversion == ord('r') and h.name in names_in(x.value):
                            bad.append(ast.unparse(x))
                        if isinstance(x, ast.Call) and isinstance(x.func, ast.Name) and x.func.id in ('repr', 'ascii') \
                                and x.args and h.name in names_in(x.args[0]):
                            bad.append(ast.unparse(x))
                        if isinstance(x, ast.BinOp) and isinstance(x.op, ast.Mod) and isinstance(x.left, ast.Constant) \
                                and isinstance(x.left.value, str) and '%r' in x.left.value and h.name in names_in(x.right):
                            bad.append('%r')
                        if isinstance(x, ast.Call) and isinstance(x.func, ast.Attribute) and x.func.attr == 'format' \
                                and isinstance(x.func.value, ast.Constant) and '!r' in str(x.func.value.value) \
                                and any(h.name in names_in(a) for a in x.args):
                            bad.append('{!r}')
                    ctx.expect(not bad, r, f're-wrap of `{h.name}` in {qual}',
                               f'the caught exception is embedded with {bad}: repr() escapes the quotes and backslashes of the '
                               'previous level again at every level, so the message size grows exponentially with the '
                               'length of the dependency chain')
    ctx.floor(1, 're-wrapping handlers on the recursion')


def rule_4(ctx):
    """The addresses the cycle guard compares are the addresses of the cells really being evaluated: a reference node
    resolves its address against the context of the current evaluation (shared with C03.3)."""
    from . import corelemma
    corelemma.rule_address_per_evaluation(ctx)
    corelemma.rule_node_state(ctx, only=('RangeNode',))
    ctx.floor(2, 'address resolution facts')


import re as _re

_CYCLE_WORD = _re.compile(r'cycl|circular', _re.I)


def _cycle_scenarios(full=True):
    """(label, cells, start) - cycles closed in every operand position, next to every kind of partner value, through
    function arguments and through ranges."""
    rows = []
    partners = [('a number', 1), ('a zero', 0), ('an error value', '=1/0'), ('#N/A', '=NA()'), ('a text', 'abc'), ('a blank', None),
                ('FALSE', '=1>2')]
    for plabel, pval in partners:
        for op in ('+', '&', '>=', '*'):
            if not full and op != '+' and plabel != 'an error value':
                continue
            for form, flabel in ((f'=B1{op}A1', 'right operand'), (f'=A1{op}B1', 'left operand')):
                cells = {'A1': form}
                if pval is not None:
                    cells['B1'] = pval
                rows.append((f'{form} with B1 {plabel}: the cycle closes in the {flabel}', cells, 'A1'))
    rows += [
        ('=-A1', {'A1': '=-A1'}, 'A1'), ('=A1', {'A1': '=A1'}, 'A1'), ('=(A1)%', {'A1': '=(A1)%'}, 'A1'),
        ('=SUM(B1,A1) with B1 an error', {'A1': '=SUM(B1,A1)', 'B1': '=1/0'}, 'A1'),
        ('=SUM(A1,B1)', {'A1': '=SUM(A1,B1)', 'B1': 2}, 'A1'),
        ('=ABS(A1)', {'A1': '=ABS(A1)'}, 'A1'),
        ('A1 -> B1 -> C1 -> A1', {'A1': '=B1+1', 'B1': '=C1*2', 'C1': '=A1-1'}, 'A1'),
        ('A1 -> B1 -> C1 -> A1 entered at C1', {'A1': '=B1+1', 'B1': '=C1*2', 'C1': '=A1-1'}, 'C1'),
        ('A2 = C1&A3, C1 = NA(), A3 = A2', {'A2': '=C1&A3', 'C1': '=NA()', 'A3': '=A2'}, 'A2'),
        ('cycle closed through a range', {'A1': '=SUM(B1:B3)', 'B1': 1, 'B2': '=A1+1', 'B3': 3}, 'A1'),
        ('cycle closed through a range behind an error', {'A1': '=D1-SUM(B1:B3)', 'B1': 1, 'B2': '=A1', 'B3': 3, 'D1': '=SQRT(-1)'}, 'A1'),
        ('cycle through a range entered from a member', {'A1': '=SUM(B1:B3)', 'B1': 1, 'B2': '=A1+1', 'B3': 3}, 'B2'),
        ('cycle behind a healthy prefix', {'Z1': '=Y1+1', 'Y1': '=A1*2', 'A1': '=B1+1', 'B1': '=A1+1'}, 'Z1'),
        ('self reference inside a range', {'A2': '=SUM(A1:A3)', 'A1': 1, 'A3': 2}, 'A2'),
    ]
    return rows


def _wb_outcome(ctx, cells, start, wb=None, **kw):
    """('value', v) | ('raise', class, message, formula evaluations) | ('unbounded', why)"""
    from . import workbook as W
    from . import values as V
    from xlsa.consteval import MsgRef, Ref
    wb = wb if wb is not None else W.Workbook(ctx, cells, **kw)
    try:
        out = wb.evaluate(start if '!' in start else 'Sheet1!' + start)
    except Unmodelled as exc:
        if 'inlining deeper than' in str(exc) or 'budget exceeded' in str(exc) or 'texts longer than' in str(exc):
            return ('unbounded', str(exc)[:100]), wb
        raise
    n = wb.calls('evaluator', 'evaluate')
    if out.end == 'raise':
        cls = out.value.ref.rpartition(':')[2] if isinstance(out.value, Ref) else repr(out.value)
        return ('raise', cls, out.value.message if isinstance(out.value, MsgRef) else '', n), wb
    return ('value', V.norm(out.value), n), wb


def rule_5(ctx):
    """Whole witness workbooks - compiled by read_and_parse_dict, evaluated by Evaluator.evaluate, node classes and registered
    operator functions as written: every cycle (closed in either operand, next to numbers, zeros, errors, texts, blanks, through
    function arguments and ranges, entered anywhere) ends in an exception whose text reports the cycle, after each formula was
    entered at most once; diamonds over zero / blank / FALSE / empty-text precedents evaluate; a doubling chain costs one
    evaluation per cell whatever the value at its end; the text of a failure report grows additively with the chain."""
    from . import workbook as W
    ev_fn = ctx.mod('evaluator').func('Evaluator.evaluate')
    n = 0
    for label, cells, start in _cycle_scenarios(full=ctx.tier != 'quick'):
        res, wb = _wb_outcome(ctx, cells, start)
        n += 1
        formulas = sum(1 for v in cells.values() if isinstance(v, str) and v.startswith('='))
        ok = res[0] == 'raise' and bool(_CYCLE_WORD.search(res[1] + ' ' + res[2])) and res[3] <= 3 * len(cells) + 6
        ctx.expect(ok, ev_fn, f'cycle reported: {label}',
                   f'evaluating {start} of {cells} ends in {res[:3]!r}: a cell that depends on itself must end in an exception that reports the '
                   f'cycle, promptly ({formulas} formulas in the model)')
    # acyclic sharing over falsy precedents
    for plabel, pval in (('5', 5), ('0', 0), ('0.0', 0.0), ('a blank', None), ('FALSE', '=1>2'), ('an empty text', '=""'), ('#N/A', '=NA()')):
        cells = {'D1': '=B1+C1+B1', 'B1': '=A1*2', 'C1': '=A1+1', 'E1': '=SUM(B1:C1,B1,B1:C1)'}
        if pval is not None:
            cells['A1'] = pval
        for start in ('D1', 'E1'):
            res, wb = _wb_outcome(ctx, cells, start)
            n += 1
            ctx.expect(res[0] == 'value' and res[2] <= 12, ev_fn, f'no false cycle: diamond/repeated references to {start} over A1 = {plabel}',
                       f'{start} of {cells} ends in {res!r}: shared precedents and repeated references are not cycles and are evaluated once each')
    # several sheets, titles that are prefixes of one another: an unqualified reference belongs to the sheet of its own formula
    for first, second in (('Sheet1', 'Sheet10'), ('Sheet10', 'Sheet1'), ('Data', 'Data2'), ('Sheet1', 'Sheet2')):
        cells = {f'{first}!A1': f'={second}!A1+1', f'{first}!B1': '=A1*2', f'{second}!A1': '=B1+1', f'{second}!B1': 5,
                 f'{first}!C1': f'=B1+{second}!A1+A1', f'{first}!D1': f'=SUM({second}!A1:B1)+SUM(A1:B1)'}
        for start, want in ((f'{first}!A1', 7), (f'{first}!B1', 14), (f'{first}!C1', 27), (f'{first}!D1', 32)):
            res, wb = _wb_outcome(ctx, cells, start)
            n += 1
            ctx.expect(res[0] == 'value' and res[1] == ('Number', want), ev_fn, f'no false cycle: same coordinates on sheets {first} and {second}, {start.partition("!")[2]}',
                       f'{start} of {cells} ends in {res[:3]!r}; the model is acyclic ({second}!A1 refers to B1 of its own sheet, a constant) and {start} is {want}')
        cells = {f'{first}!A1': f'=0+{second}!A2', f'{second}!A2': '=1+A2', f'{first}!A2': 1}
        res, wb = _wb_outcome(ctx, cells, f'{first}!A1')
        n += 1
        ctx.expect(res[0] == 'raise' and bool(_CYCLE_WORD.search(res[1] + ' ' + res[2])), ev_fn, f'cycle reported: self reference on sheet {second} reached from {first}',
                   f'{first}!A1 of {cells} ends in {res[:3]!r}: {second}!A2 refers to itself and that is a cycle whatever sheet the evaluation started on')
    # long acyclic chains are not cycles, however long; what fails at their end is what is reported
    for length in (140, 180):
        for tail, tlabel in ((1, 'a number'), ('=NOSUCHFUNC(1)', 'an unknown function')):
            cells = {f'A{i}': f'=A{i + 1}+1' for i in range(1, length)}
            cells[f'A{length}'] = tail
            res, wb = _wb_outcome(ctx, cells, 'A1', max_depth=3000, max_items=2000)
            n += 1
            if tail == 1:
                ok = res[0] == 'value' and res[1] == ('Number', length)
            else:
                ok = res[0] == 'raise' and not _CYCLE_WORD.search(res[1] + ' ' + res[2])
            ctx.expect(ok, ev_fn, f'acyclic chain of {length} cells ending in {tlabel}',
                       f'A1 = A2+1, ..., A{length - 1} = A{length}+1, A{length} = {tail}: evaluating A1 ends in {tuple(str(x)[:90] for x in res[:3])!r}; an acyclic model never '
                       'produces a cycle report' + (f', A1 is {length}' if tail == 1 else ' - the failure is the unknown function'))
    # a cycle that appears later: the model is edited after cells have been evaluated (lazily evaluated branches change their minds)
    for first_evals in (('A1', 'B1'), ('A1',), ('B1',), ()):
        cells = {'A1': '=IF(C1,B1,D1)', 'B1': '=A1+1', 'C1': 0, 'D1': 7, 'E1': '=IF(C1,E1,1)+A1'}
        wb = W.Workbook(ctx, cells)
        seen_first = [wb.value('Sheet1!' + a) for a in first_evals]
        wb.set('Sheet1!C1', 1)
        for start in ('A1', 'E1'):
            before = wb.calls('evaluator', 'evaluate')
            res, _ = _wb_outcome(ctx, cells, start, wb=wb)
            n += 1
            ok = res[0] == 'raise' and bool(_CYCLE_WORD.search(res[1] + ' ' + res[2])) and res[3] - before <= 12
            ctx.expect(ok, ev_fn, f'cycle closed by an edit after {list(first_evals) or "no"} evaluation(s): {start}',
                       f'{cells}: after evaluating {list(first_evals)} (values {seen_first!r}) C1 is set to 1, which closes A1 -> B1 -> A1; evaluating {start} then ends in '
                       f'{tuple(str(x)[:90] for x in res[:3])!r} after {res[-1] - before if res[0] != "unbounded" else "?"} cell evaluations: a cell that depends on itself '
                       'must end promptly in an exception that reports the cycle, whatever was evaluated before')
    # doubling chains: one evaluation per cell whatever the end value, also when a failure is met last
    depth = 9
    for plabel, pval in (('1', 1), ('0', 0), ('a blank', None), ('FALSE', '=1>2'), ('an empty text', '=""'), ('an error value', '=1/0')):
        for tail, tlabel in (('', 'value'), ('+NOSUCHFUNC(1)', 'unknown function met last'), ('+A1', 'cycle closed last')):
            cells = {f'A{i}': f'=A{i + 1}+A{i + 1}' for i in range(1, depth)}
            cells['A1'] = cells['A1'] + tail
            if pval is not None:
                cells[f'A{depth}'] = pval
            res, wb = _wb_outcome(ctx, cells, 'A1')
            n += 1
            count = res[-1] if res[0] != 'unbounded' else None
            ok = count is not None and count <= depth * depth + 10 and (res[0] == 'raise') == bool(tail)
            if ok and tail == '+A1':
                ok = bool(_CYCLE_WORD.search(res[1] + ' ' + res[2]))
            ctx.expect(ok, ev_fn, f'doubling chain over {plabel}, {tlabel}',
                       f'A1 = A2+A2{tail}, A2 = A3+A3, ... A{depth} = {plabel}: {res[0]} after {count} cell evaluations (budget {depth * depth + 10}); '
                       'every cell is evaluated once per evaluation, whatever its value - a value that is zero, blank, FALSE or empty is a value')
    # message growth along a failing chain
    sizes = []
    for depth in (4, 8, 12):
        cells = {f'A{i}': f'=A{i + 1}+1' for i in range(1, depth)}
        cells[f'A{depth}'] = '=NOSUCHFUNC("a\\b""c")'
        res, wb = _wb_outcome(ctx, cells, 'A1')
        sizes.append(len(res[2]) if res[0] == 'raise' else None)
    n += 1
    ok = all(isinstance(x, int) for x in sizes) and (sizes[2] - sizes[1]) <= 1.5 * (sizes[1] - sizes[0]) + 64
    ctx.expect(ok, ev_fn, 'failure report grows additively with the chain',
               f'the text of the failure report of a chain of 4 / 8 / 12 cells has {sizes} characters: each level may add its own line, it must not '
               'multiply what it received (repr() of the caught exception doubles escapes at every level)')
    ctx.floor(70, 'workbook scenarios')


RULES = [
    ('C06.1', 'the cycle guard sees its ancestors (identity flow along the recursion)', rule_1),
    ('C06.2', 'stack discipline: insertions paired with removals on every exit', rule_2),
    ('C06.3', 'exception re-wrapping is additive (no repr of the caught exception)', rule_3),
    ('C06.4', 'guarded addresses are resolved per evaluation (shared with C03.3)', rule_4),
    ('C06.5', 'whole witness workbooks: cycles reported in every position, no false cycles, one evaluation per cell, additive reports', rule_5),
]
