"""A whole witness workbook, statically: ModelCompiler.read_and_parse_dict as written (XLFormula tokenizing, build_ranges,
build_code -> FormulaParser), Evaluator(model) as written, Evaluator.evaluate as written - the node classes, the evaluation
context, the registered function objects (validate_args wrappers, casts) - all by constant propagation in ONE world, so that
state kept anywhere (on nodes, on the model, on the evaluator, in module-level caches) is seen by the next step of a scenario.

Modelled externals (the only ones): the pandas storage behind func_xltypes.Array (row-major list of rows), numpy on Python
numbers, dateutil.parser.parse on texts that are no dates.
"""
import ast

from xlsa import Unmodelled, AnchorMissing
from xlsa.consteval import Ref
from xlsa.guards import Interp, Rec, PyModel, World, ExcRaised
from . import values as V

XLT = 'pkg:xlfunctions.func_xltypes:'


class _Values(PyModel):
    """DataFrame.values of a range array: .flat in row-major order, iteration by rows."""
    _copy_fields = ('rows', 'flat')

    def __init__(self, rows):
        self.rows = rows
        self.flat = [x for r in rows for x in r]

    def __iter__(self):
        return iter(self.rows)

    def __getitem__(self, i):
        return self.rows[i]

    def __len__(self):
        return len(self.rows)

    def tolist(self):
        return [list(r) for r in self.rows]


def array_models():
    def make(data, *a, **k):
        if a or k:
            raise Unmodelled('Array(data, ...) with further arguments')
        if isinstance(data, Rec) and str(data.f.get('cls', '')).endswith(':Array'):
            return data
        if not isinstance(data, (list, tuple)):
            raise Unmodelled(f'Array({data!r})')
        rows = [list(r) if isinstance(r, (list, tuple)) else [r] for r in data]
        if rows and any(len(r) != len(rows[0]) for r in rows):
            rows = [r + [None] * (max(len(x) for x in rows) - len(r)) for r in rows]     # pandas pads ragged rows
        rec = V.array(rows)
        rec.f['values'] = _Values(rows)
        return rec
    def getitem(self_, key):
        # DataFrame[label]: the column with that label (range arrays have the default labels 0, 1, ...), a Series that yields its values
        rows = self_.f.get('rows')
        if isinstance(key, bool) or not isinstance(key, int) or not isinstance(rows, list):
            raise Unmodelled(f'Array[{key!r}]')
        width = len(rows[0]) if rows else 0
        if not 0 <= key < width:
            raise ExcRaised(Ref('builtin:KeyError'))
        return [r[key] for r in rows]

    def iterate(self_):
        # iterating a DataFrame yields its column labels
        rows = self_.f.get('rows')
        if not isinstance(rows, list):
            raise Unmodelled('iteration over an Array without rows')
        return list(range(len(rows[0]) if rows else 0))
    def set_index(interp, self_, column, *a, **k):
        rows = self_.f.get('rows')
        if a or k or column != 0 or not isinstance(rows, list):
            raise Unmodelled('DataFrame.set_index other than set_index(0) on a range array')
        return _Indexed(interp, rows)
    set_index.wants_interp = True
    return {XLT + 'Array': make, XLT + 'Array.__getitem__': getitem, XLT + 'Array.__iter__': iterate, XLT + 'Array.set_index': set_index}


class _Index(PyModel):
    """pandas Index over the first column: membership by hash and equality when the keys are unique (a hash table), by == against
    every key when they are not (pandas then builds a boolean mask)."""

    def __init__(self, interp, keys):
        self.interp, self.keys = interp, keys

    def _key(self, v):
        from xlsa.guards import _RecKey
        return _RecKey(self.interp, v) if isinstance(v, Rec) else v

    def positions(self, key):
        ks = [self._key(k) for k in self.keys]
        unique = len(set(ks)) == len(ks)
        if unique:
            kk = self._key(key)
            return [i for i, k in enumerate(ks) if hash(k) == hash(kk) and k == kk]
        import ast as _ast
        return [i for i, k in enumerate(self.keys) if self.interp.truth(self.interp._compare(_ast.Eq(), k, key, None))]

    def __contains__(self, key):
        return bool(self.positions(key))


class _Loc(PyModel):
    def __init__(self, frame):
        self.frame = frame

    def __getitem__(self, key):
        pos = self.frame.index.positions(key)
        if not pos:
            raise ExcRaised(Ref('builtin:KeyError'))
        rest = [self.frame.rows[i][1:] for i in pos]
        return _Values([rest[0]]).rows[0] and _RowValues(rest[0]) if len(pos) == 1 else _RowValues(rest)      # one row: a Series; several: a frame of rows


class _RowValues(PyModel):
    """.values of what .loc returned: the items of the row, or - for several rows - the rows."""

    def __init__(self, values):
        self.values = list(values)


class _Indexed(PyModel):
    def __init__(self, interp, rows):
        self.interp, self.rows = interp, rows
        self.index = _Index(interp, [r[0] for r in rows])
        self.loc = _Loc(self)


class _Series(PyModel):
    def __init__(self, interp, items):
        self.interp, self.items = interp, items

    def sum(self):
        import ast as _ast
        total = 0
        for x in self.items:
            total = self.interp._binop(_ast.Add(), total, x)
        return total


class _Frame(PyModel):
    """pandas.concat(arrays, axis=1) of range arrays: rows side by side; prod(axis=1) multiplies along each row."""

    def __init__(self, interp, rows):
        self.interp, self.rows = interp, rows

    def prod(self, axis=0):
        import ast as _ast
        if axis != 1:
            raise Unmodelled('DataFrame.prod along columns')
        out = []
        for r in self.rows:
            p = 1
            for x in r:
                p = self.interp._binop(_ast.Mult(), p, x)
            out.append(p)
        return _Series(self.interp, out)


class _Col(PyModel):
    """A column of a small DataFrame: element-wise comparison with a scalar, astype('float'), iteration."""

    def __init__(self, interp, items):
        self.interp, self.items = interp, list(items)

    def __iter__(self):
        return iter(self.items)

    def __len__(self):
        return len(self.items)

    def __ne__(self, other):
        import ast as _ast
        return _Col(self.interp, [self.interp.truth(self.interp._compare(_ast.NotEq(), x, other, None)) for x in self.items])

    def __eq__(self, other):
        import ast as _ast
        return _Col(self.interp, [self.interp.truth(self.interp._compare(_ast.Eq(), x, other, None)) for x in self.items])

    __hash__ = None

    def astype(self, kind):
        if kind not in ('float', float):
            raise Unmodelled(f'Series.astype({kind!r})')
        out = []
        for x in self.items:
            if isinstance(x, Rec):
                found, x = self.interp._builtin_on_rec('float', [x])
                if not found:
                    raise Unmodelled('astype(float) of an instance without __float__')
            out.append(float(x))
        return _Col(self.interp, out)


class _DF(PyModel):
    """pandas.DataFrame({'a': [...], 'b': [...]}) as XIRR uses it: column access, boolean-mask rows, sort_values, column store."""

    def __init__(self, interp, cols):
        self.interp, self.cols = interp, {k: list(v) for k, v in cols.items()}

    def __getitem__(self, key):
        if isinstance(key, str):
            return _Col(self.interp, self.cols[key])
        if isinstance(key, _Col):
            keep = [bool(b) for b in key.items]
            return _DF(self.interp, {k: [x for x, b in zip(v, keep) if b] for k, v in self.cols.items()})
        raise Unmodelled(f'DataFrame[{key!r}]')

    def __setitem__(self, key, col):
        self.cols[key] = list(col.items if isinstance(col, _Col) else col)

    def sort_values(self, by, ascending=True):
        import ast as _ast
        n = len(next(iter(self.cols.values()))) if self.cols else 0
        order = []
        for i in range(n):          # stable insertion sort with the elements' own <
            j = len(order)
            while j > 0 and self.interp.truth(self.interp._compare(_ast.Lt(), self.cols[by][i], self.cols[by][order[j - 1]], None)):
                j -= 1
            order.insert(j, i)
        if not ascending:
            order.reverse()
        return _DF(self.interp, {k: [v[i] for i in order] for k, v in self.cols.items()})


def pandas_models():
    def dataframe(interp, data=None, **kw):
        if kw or not isinstance(data, dict) or not all(isinstance(v, (list, tuple)) for v in data.values()):
            raise Unmodelled('pandas.DataFrame(...) other than from a dict of lists')
        return _DF(interp, data)
    dataframe.wants_interp = True
    out = _pandas_concat_models()
    out['ext:pandas.DataFrame'] = dataframe
    return out


def _pandas_concat_models():
    def concat(interp, arrays, axis=0, **kw):
        if axis != 1 or kw:
            raise Unmodelled('pandas.concat other than side by side')
        rows = None
        for a in arrays:
            if not (isinstance(a, Rec) and isinstance(a.f.get('rows'), list)):
                raise Unmodelled('pandas.concat of something that is not a range array')
            if rows is None:
                rows = [list(r) for r in a.f['rows']]
            else:
                if len(rows) != len(a.f['rows']):
                    raise Unmodelled('pandas.concat of arrays with different row counts')
                rows = [r + list(r2) for r, r2 in zip(rows, a.f['rows'])]
        return _Frame(interp, rows or [])
    concat.wants_interp = True
    return {'ext:pandas.concat': concat}


def _nodate(*a, **k):
    raise ExcRaised(Ref('builtin:ValueError'))


class _Book(PyModel):
    """openpyxl workbook as the reader uses it: sheetnames, book[name]._cells, defined_names."""

    def __init__(self, sheets, names):
        self.sheetnames = list(sheets)
        self._sheets = sheets
        self.defined_names = names
        self.worksheets = list(sheets.values())
        import datetime as _dtm
        self.epoch = _dtm.datetime(1899, 12, 30)        # openpyxl: WINDOWS_EPOCH, or MAC_EPOCH for workbooks saved with the 1904 date system

    def __getitem__(self, name):
        return self._sheets[name]


class _Sheet(PyModel):
    def __init__(self, cells, title='', names=None, state='visible'):
        self._cells = cells
        self.title = title
        self.defined_names = names or {}         # openpyxl >= 3.1: names whose scope is this sheet
        self.sheet_state = state                 # 'visible' | 'hidden' | 'veryHidden'


def _book(sheets, names, cached=None, hidden=None, date1904=False):
    """sheets: {sheet: {coordinate: native constant | '=formula'}}; names: {name: 'Sheet!$A$1', (sheet, name): target of a name scoped to that sheet}; cached: {'Sheet!A1': cached result}"""
    import re
    out = {}
    for sname, cells in sheets.items():
        d = {}
        for coord, v in cells.items():
            m = re.fullmatch(r'([A-Z]+)(\d+)', coord)
            col = 0
            for ch in m.group(1):
                col = col * 26 + ord(ch) - 64
            if isinstance(v, str) and v.startswith('='):
                cell = Rec(coordinate=coord, data_type='f', value=v, cvalue=(cached or {}).get(f'{sname}!{coord}'))
            else:
                cell = Rec(coordinate=coord, data_type='b' if isinstance(v, bool) else ('n' if isinstance(v, (int, float)) else 's'), value=v, cvalue=None)
            d[(int(m.group(2)), col)] = cell
        local = {n[1]: Rec(name=n[1], value=t, hidden=None) for n, t in (names or {}).items() if isinstance(n, tuple) and n[0] == sname}
        out[sname] = _Sheet(dict(sorted(d.items())), sname, local, (hidden or {}).get(sname, 'visible'))
    book = _Book(out, {n: Rec(name=n, value=t, hidden=None) for n, t in (names or {}).items() if not isinstance(n, tuple)})
    if date1904:
        import datetime as _dtm
        book.epoch = _dtm.datetime(1904, 1, 1)
    return book


class WorkbookFailed(Exception):
    """Raised by the harness when the library itself fails on a witness every property takes for granted (compiling a well-formed
    workbook); the runner reports it as a violation at the named function."""
    as_violation = True

    def __init__(self, module, function, why):
        Exception.__init__(self, why)
        self.module, self.function, self.why = module, function, why


def _short(cells, limit=420):
    text = repr(cells)
    return text if len(text) <= limit else text[:limit] + ' ...'


class Workbook:
    def __init__(self, ctx, cells=None, models=None, world=None, sheets=None, names=None, cached=None, ignore_sheets=None, max_items=None, max_depth=None, hidden=None, ignore_hidden=None, date1904=False):
        self.ctx = ctx
        self.world = world if world is not None else World()
        self.world.max_depth = max_depth or 150
        self.world.budget = 800000
        self.world.call_counts = {}
        if max_items is not None:
            self.world.max_items = max_items          # loops over more items than this are not unrolled (Unmodelled)
        import sys
        if sys.getrecursionlimit() < 30000:
            sys.setrecursionlimit(30000)
        self.models = dict(V.numpy_models())
        self.models.update(array_models())
        self.models.update(V.openpyxl_models())
        self.models.update(pandas_models())
        self.models['ext:dateutil.parser.parse'] = _nodate
        self.models.update(models or {})
        mm = ctx.mod('model')
        if sheets is not None:
            # the xlsx path: Reader over a modelled openpyxl workbook, parse_archive (defined names, ranges), build_code
            book = _book(sheets, names, cached, hidden, date1904)
            self.models['ext:openpyxl.load_workbook'] = lambda *a, **k: book
            self.models.setdefault('pkg:patch:openpyxl_WorksheetReader_patch', lambda *a, **k: None)
            if ignore_hidden is not None:
                out = self._run(mm, {'h': ignore_hidden}, 'c = ModelCompiler()\nreturn c.read_and_parse_archive("witness.xlsx", ignore_hidden=h)')
            elif ignore_sheets is None:
                out = self._run(mm, {}, 'c = ModelCompiler()\nreturn c.read_and_parse_archive("witness.xlsx")')
            else:
                out = self._run(mm, {'ign': list(ignore_sheets)}, 'c = ModelCompiler()\nreturn c.read_and_parse_archive("witness.xlsx", ignore_sheets=ign)')
        else:
            out = self._run(mm, {'d': dict(cells)}, 'c = ModelCompiler()\nreturn c.read_and_parse_dict(d)')
        if out.end == 'raise' and out.explicit:
            # a well-formed workbook that the library REFUSES to compile (a raise statement of the package): it refuses what the
            # property says it computes. (An exception the interpreter inferred - AttributeError on a value it could not follow -
            # stays an analysis error: it may be the interpreter's doing.)
            shown = dict(cells) if cells is not None else {k: v for k, v in (sheets or {}).items()}
            raise WorkbookFailed('model', 'ModelCompiler.read_and_parse_dict' if sheets is None else 'ModelCompiler.read_and_parse_archive',
                                 f'compiling the well-formed witness workbook {_short(shown)} ends in the Python exception {out.value!r}')
        if out.end != 'return' or not isinstance(out.value, Rec):
            raise Unmodelled(f'compiling the witness workbook ends in {out.end} {out.value!r}')
        self.model = out.value
        self.evaluators = {}

    @classmethod
    def adopt(cls, other, model):
        """A model obtained otherwise (restored from a file, extracted) in the world and with the library models of `other`."""
        self = cls.__new__(cls)
        self.ctx, self.world, self.models = other.ctx, other.world, other.models
        self.model = model
        self.evaluators = {}
        return self

    def _run(self, module, env, src):
        it = Interp(self.ctx.a, module, env, inline_pkg=True, world=self.world, call_models=self.models)
        self.last = it
        return it.run(ast.parse(src).body)

    def evaluator(self, key='e'):
        if key not in self.evaluators:
            out = self._run(self.ctx.mod('evaluator'), {'m': self.model}, 'return Evaluator(m)')
            if out.end != 'return' or not isinstance(out.value, Rec):
                raise Unmodelled(f'Evaluator(model) ends in {out.end} {out.value!r}')
            self.evaluators[key] = out.value
        return self.evaluators[key]

    def evaluate(self, addr, key='e'):
        """Outcome of evaluator.evaluate(addr)"""
        return self._run(self.ctx.mod('evaluator'), {'e': self.evaluator(key), 'a': addr}, 'return e.evaluate(a)')

    def calls(self, module, function):
        """How often the interpreter entered module.function so far in this world."""
        return self.world.call_counts.get((module, function), 0)

    def value(self, addr, key='e'):
        out = self.evaluate(addr, key)
        if out.end == 'return':
            return V.norm(out.value)
        if out.end == 'raise':
            return ('raise', out.value.ref.rpartition(':')[2] if isinstance(out.value, Ref) else repr(out.value))
        return (out.end, repr(out.value))

    def set(self, addr, value, key='e'):
        out = self._run(self.ctx.mod('evaluator'), {'e': self.evaluator(key), 'a': addr, 'v': value}, 'return e.set_cell_value(a, v)')
        if out.end != 'return':
            raise Unmodelled(f'set_cell_value({addr!r}) ends in {out.end} {out.value!r}')

    def set_cell(self, addr, value, key='e', through_model=False):
        """set_cell_value with an XLCell object as the address (the API's other spelling of an address)"""
        recv = 'e.model' if through_model else 'e'
        out = self._run(self.ctx.mod('evaluator'), {'e': self.evaluator(key), 'a': addr, 'v': value}, f'return {recv}.set_cell_value(xltypes.XLCell(a, None), v)')
        if out.end != 'return':
            raise Unmodelled(f'set_cell_value(XLCell({addr!r})) ends in {out.end} {out.value!r}')

    def get_cell(self, addr, key='e'):
        out = self._run(self.ctx.mod('evaluator'), {'e': self.evaluator(key), 'a': addr}, 'return e.get_cell_value(xltypes.XLCell(a, None))')
        return V.norm(out.value) if out.end == 'return' else (out.end, repr(out.value))

    def extracted(self, focus):
        """A workbook over ModelCompiler.extract(model, focus) (interpreted as written), in the same world."""
        out = self._run(self.ctx.mod('model'), {'m': self.model, 'f': list(focus)}, 'return ModelCompiler.extract(m, f)')
        if out.end != 'return' or not isinstance(out.value, Rec):
            raise Unmodelled(f'ModelCompiler.extract ends in {out.end} {out.value!r}')
        twin = Workbook.__new__(Workbook)
        twin.ctx, twin.world, twin.models, twin.model, twin.evaluators = self.ctx, self.world, self.models, out.value, {}
        return twin

    def set_model(self, addr, value):
        out = self._run(self.ctx.mod('model'), {'m': self.model, 'a': addr, 'v': value}, 'return m.set_cell_value(a, v)')
        if out.end != 'return':
            raise Unmodelled(f'Model.set_cell_value({addr!r}) ends in {out.end} {out.value!r}')

    def get(self, addr, key='e'):
        out = self._run(self.ctx.mod('evaluator'), {'e': self.evaluator(key), 'a': addr}, 'return e.get_cell_value(a)')
        return V.norm(out.value) if out.end == 'return' else (out.end, repr(out.value))

    def evaluator_with(self, key, replace):
        """A further Evaluator over the same model whose namespace maps the names in `replace` to other registered functions."""
        src = 'ns = xl.FUNCTIONS.copy()\n' + ''.join(f'ns[{k!r}] = ns[{v!r}]\n' for k, v in replace.items()) + 'return Evaluator(m, ns)'
        out = self._run(self.ctx.mod('evaluator'), {'m': self.model}, src)
        if out.end != 'return' or not isinstance(out.value, Rec):
            raise Unmodelled(f'Evaluator(model, namespace) ends in {out.end} {out.value!r}')
        self.evaluators[key] = out.value
        return out.value


def error_code(ctx, short):
    """'#DIV/0!' for 'DivZeroExcelError' (the class attribute, as written)."""
    cm, code = ctx.res.class_attr('pkg:xlfunctions.xlerrors:' + short, 'value')
    try:
        return ctx.fold(code, cm) if code is not None else None
    except Exception:
        return None
