"""A whole witness workbook, statically: ModelCompiler.read_and_parse_dict as written (XLFormula tokenizing, build_ranges,
build_code -> FormulaParser), Evaluator(model) as written, Evaluator.evaluate as written - the node classes, the evaluation
context, the registered function objects (validate_args wrappers, casts) - all by constant propagation in ONE world, so that
state kept anywhere (on nodes, on the model, on the evaluator, in module-level caches) is seen by the next step of a scenario.

Modelled externals (the only ones): the pandas storage behind func_xltypes.Array (row-major list of rows), numpy on Python
numbers, dateutil.parser.parse on texts that are no dates.
"""
import ast

from xlsa import Unmodelled, AnchorMissing
from xlsa.consteval import Ref
from xlsa.guards import Interp, Rec, PyModel, World, ExcRaised
from . import values as V

XLT = 'pkg:xlfunctions.func_xltypes:'


class _Values(PyModel):
    """DataFrame.values of a range array: .flat in row-major order, iteration by rows."""

    def __init__(self, rows):
        self.rows = rows
        self.flat = [x for r in rows for x in r]

    def __iter__(self):
        return iter(self.rows)

    def tolist(self):
        return [list(r) for r in self.rows]


def array_models():
    def make(data, *a, **k):
        if a or k:
            raise Unmodelled('Array(data, ...) with further arguments')
        if isinstance(data, Rec) and str(data.f.get('cls', '')).endswith(':Array'):
            return data
        if not isinstance(data, (list, tuple)):
            raise Unmodelled(f'Array({data!r})')
        rows = [list(r) if isinstance(r, (list, tuple)) else [r] for r in data]
        if rows and any(len(r) != len(rows[0]) for r in rows):
            rows = [r + [None] * (max(len(x) for x in rows) - len(r)) for r in rows]     # pandas pads ragged rows
        rec = V.array(rows)
        rec.f['values'] = _Values(rows)
        return rec
    return {XLT + 'Array': make}


def _nodate(*a, **k):
    raise ExcRaised(Ref('builtin:ValueError'))


class Workbook:
    def __init__(self, ctx, cells, models=None, world=None, compile_with='read_and_parse_dict'):
        self.ctx = ctx
        self.world = world if world is not None else World()
        self.world.max_depth = 150
        import sys
        if sys.getrecursionlimit() < 30000:
            sys.setrecursionlimit(30000)
        self.models = dict(V.numpy_models())
        self.models.update(array_models())
        self.models.update(V.openpyxl_models())
        self.models['ext:dateutil.parser.parse'] = _nodate
        self.models.update(models or {})
        mm = ctx.mod('model')
        out = self._run(mm, {'d': dict(cells)}, 'c = ModelCompiler()\nreturn c.read_and_parse_dict(d)')
        if out.end != 'return' or not isinstance(out.value, Rec):
            raise Unmodelled(f'read_and_parse_dict on the witness workbook ends in {out.end} {out.value!r}')
        self.model = out.value
        self.evaluators = {}

    def _run(self, module, env, src):
        it = Interp(self.ctx.a, module, env, inline_pkg=True, world=self.world, call_models=self.models)
        self.last = it
        return it.run(ast.parse(src).body)

    def evaluator(self, key='e'):
        if key not in self.evaluators:
            out = self._run(self.ctx.mod('evaluator'), {'m': self.model}, 'return Evaluator(m)')
            if out.end != 'return' or not isinstance(out.value, Rec):
                raise Unmodelled(f'Evaluator(model) ends in {out.end} {out.value!r}')
            self.evaluators[key] = out.value
        return self.evaluators[key]

    def evaluate(self, addr, key='e'):
        """Outcome of evaluator.evaluate(addr)"""
        return self._run(self.ctx.mod('evaluator'), {'e': self.evaluator(key), 'a': addr}, 'return e.evaluate(a)')

    def value(self, addr, key='e'):
        out = self.evaluate(addr, key)
        if out.end == 'return':
            return V.norm(out.value)
        if out.end == 'raise':
            return ('raise', out.value.ref.rpartition(':')[2] if isinstance(out.value, Ref) else repr(out.value))
        return (out.end, repr(out.value))

    def set(self, addr, value, key='e'):
        out = self._run(self.ctx.mod('evaluator'), {'e': self.evaluator(key), 'a': addr, 'v': value}, 'return e.set_cell_value(a, v)')
        if out.end != 'return':
            raise Unmodelled(f'set_cell_value({addr!r}) ends in {out.end} {out.value!r}')
